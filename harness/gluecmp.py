#!/venv/bin/python
"""gluecmp: execution tie of the glue translator (tools/py2glue.py) and of the primitive semantics (coq/Glue/Interp.v).

For one whitelisted glue routine (coq/Gen/glue.json) and one argument tuple, run
  (a) the TRANSLATED Glue.Lang term (coq/Gen/Glue.v) in the extracted total evaluator under the kernel environment
      `kenv_all` of coq/Extract/ExtractGlue.v  (ocaml/gluedriver, all cases of all routines in ONE subprocess call),
  (b) the REAL pynapple routine (the function object of /repo) on real numpy arrays / real pynapple objects,
canonicalise both results to one Python structure and report any difference in `res.disagreements`.

Number model: a time is a float counted in integer nanosecond ticks.  real -> model: ticks = round(x * 1e9), taken to
the nearest HALF tick (Fraction(round(x * 2e9), 2)) so that the exact halvings of the model are representable;
model -> real: ticks / 1e9.  Data floats (samples, thresholds on data, interval indices) are the number itself.

Input descriptors (hashable tuples, one per parameter of glue.json's "params", in order):
    ("N",)                    None
    ("i", k)  ("b", 0|1)  ("s", "text")
    ("f", t)                  float scalar, a time of t ticks (int | Fraction | None = NaN);   real value t / 1e9
    ("d", k)                  float scalar that is data (a threshold compared with data);      real value float(k)
    ("F", (t, ...))           1-D float numpy array of times in ticks                          ("L", ...) the same as a Python list
    ("D", (k | None, ...))    1-D float numpy array of DATA: real value float(k), None = NaN
    ("I", (k, ...))  ("B", (0|1, ...))      int64 / bool numpy arrays
    ("IS", starts, ends)      a real nap.IntervalSet built from canonical starts / ends (ticks)
    ("TS", (t, ...))          a real nap.Ts with these timestamps and an explicit wide time_support
    ("TSO", ts, starts, ends)           a real nap.Ts with the explicit canonical time_support (starts, ends), model object
                                        O:Ts{t=F[..];time_support=IS[..|..]}
    ("TSD", ts, data, starts, ends)     a real nap.Tsd (1-D float data, ints / None = NaN), model object
                                        O:Tsd{t=F[..];values=D[..];time_support=IS[..|..]}
A result series (real Ts / Tsd, model O:Ts / O:Tsd packaged by kenv_ctor) is canonicalised class-insensitively to
    ("SER", [t cells], values tree | ("N",), [(start, end), ...])
A Python slice / the model's O:slice{start=i:..;stop=i:..;step=N} is ("O", "slice", [("start", ..), ("stop", ..), ("step", ..)]).

Canonical results (tagged trees; `plain()` strips the tags for reports):
    ("N",) ("i", k) ("b", bool) ("s", text) ("f", cell)
    ("F", [cell, ...]) ("I", [int, ...]) ("B", [bool, ...]) ("F2", rows, cols, [cell, ...])
    ("T", [tree, ...])   ("IS", [(start, end), ...])   ("ERR", kind, detail)
    cell = int | Fraction | "nan" | "inf"
A real exception corresponds to a model ERR: IndexError <-> INDEX; an AssertionError / ValueError / RuntimeError / TypeError
raised by an explicit raise / assert of pynapple <-> RAISE <name>; a TypeError / AttributeError / ValueError coming out of
numpy (shape mismatch, wrong kind) <-> TYPE.

CLI:  python harness/gluecmp.py <routine | G1 | G2 | G3 | all> [quick|thorough] [seed]
"""
import itertools
import linecache
import os
import random
import sys
import time
import warnings
from fractions import Fraction

_HERE = os.path.dirname(os.path.abspath(__file__))
if _HERE not in sys.path:
    sys.path.insert(0, _HERE)
import common as C  # noqa: E402
import gen as G     # noqa: E402

os.environ.setdefault("NUMBA_CACHE_DIR", os.path.join(C.HOME, ".cache", "numba-plain"))
os.environ.setdefault("PYTHONHASHSEED", "0")
sys.dont_write_bytecode = True
if C.REPO not in sys.path:
    sys.path.insert(0, C.REPO)

import numpy as np  # noqa: E402

U = 1953125            # lattice unit in ticks: 1953125e-9 s = 2**-9 s, so every add / sub / halve on the lattice is exact
DRIVER = "gluedriver"

G1 = ["IntervalSet.__init__", "IntervalSet.__getitem__", "IntervalSet.union", "IntervalSet.intersect",
      "IntervalSet.set_diff", "IntervalSet.in_interval", "IntervalSet.time_span", "IntervalSet.tot_length",
      "IntervalSet.drop_short_intervals", "IntervalSet.drop_long_intervals", "IntervalSet.merge_close_intervals",
      "_restrict"]
G2 = ["_count", "_bin_average", "_threshold", "_dropna", "jitbin_array", "_value_from"]
# routines whose kernels may still be absent from kenv_all: a model answer ERR KERNEL is tolerated (and counted)
G3 = ["_Base.restrict", "_Base.count", "_Base.value_from", "_BaseTsd.bin_average", "_BaseTsd.dropna", "Tsd.threshold",
      "_Base.get_slice", "_Base._get_slice"]
KERNEL_MAY_BE_MISSING = set(G2)

_mods = None


def _nap():
    global _mods
    if _mods is None:
        warnings.simplefilter("ignore")
        import pynapple as nap
        from pynapple.core import _core_functions as CF
        _mods = (nap, CF)
    return _mods


# ---------------------------------------------------------------------------------------------------------
# descriptors -> model text / real values
def _cell(t):
    if t is None:
        return "nan"
    if isinstance(t, Fraction):
        return str(t.numerator) if t.denominator == 1 else f"{t.numerator}/{t.denominator}"
    return str(int(t))


def _cells(l):
    return ",".join(_cell(t) for t in l)


def m_arg(d):
    k = d[0]
    if k == "N":
        return "N"
    if k == "i":
        return f"i:{int(d[1])}"
    if k == "b":
        return f"b:{int(bool(d[1]))}"
    if k == "s":
        return "s:" + d[1]
    if k in ("f", "d"):
        return f"{k}:{_cell(d[1])}"
    if k in ("F", "L"):
        return "F[" + _cells(d[1]) + "]"
    if k == "D":
        return "D[" + _cells(d[1]) + "]"
    if k == "I":
        return "I[" + ",".join(str(int(x)) for x in d[1]) + "]"
    if k == "B":
        return "B[" + ",".join(str(int(bool(x))) for x in d[1]) + "]"
    if k == "IS":
        return "IS[" + _cells(d[1]) + "|" + _cells(d[2]) + "]"
    if k == "TS":
        return "TS[" + _cells(d[1]) + "]"
    if k == "TSO":
        return "O:Ts{t=F[" + _cells(d[1]) + "];time_support=IS[" + _cells(d[2]) + "|" + _cells(d[3]) + "]}"
    if k == "TSD":
        return ("O:Tsd{t=F[" + _cells(d[1]) + "];values=D[" + _cells(d[2]) + "];time_support=IS[" + _cells(d[3]) + "|"
                + _cells(d[4]) + "]}")
    raise ValueError(d)


def model_line(routine, args):
    return "\t".join([routine] + [m_arg(a) for a in args])


def _sec(t):
    return float("nan") if t is None else float(t) / 1e9


_IS_CACHE = {}
_TS_CACHE = {}


def real_iset(starts, ends):
    key = (starts, ends)
    ep = _IS_CACHE.get(key)
    if ep is None:
        nap, _ = _nap()
        ep = nap.IntervalSet(start=G.arr(list(starts)), end=G.arr(list(ends)))
        got = [(C.to_ns(a), C.to_ns(b)) for a, b in ep.values]
        if got != list(zip(starts, ends)):
            raise RuntimeError(f"gluecmp generator: operand {key} is not canonical (the constructor changed it to {got})")
        if len(_IS_CACHE) > 200000:
            _IS_CACHE.clear()
        _IS_CACHE[key] = ep
    return ep


def real_ts(ts):
    x = _TS_CACHE.get(ts)
    if x is None:
        nap, _ = _nap()
        lo, hi = (min(ts), max(ts)) if ts else (0, 0)
        sup = nap.IntervalSet(start=lo / 1e9 - 1.0, end=hi / 1e9 + 1.0)
        x = nap.Ts(t=G.arr(list(ts)), time_support=sup)
        if [C.to_ns(v) for v in x.index.values] != list(ts):
            raise RuntimeError(f"gluecmp generator: Ts {ts} was altered by its constructor")
        if len(_TS_CACHE) > 200000:
            _TS_CACHE.clear()
        _TS_CACHE[ts] = x
    return x


_SER_CACHE = {}


def real_series(d):
    """a real Ts / Tsd with an explicit canonical time_support that contains all its samples (checked)"""
    x = _SER_CACHE.get(d)
    if x is None:
        nap, _ = _nap()
        ts = d[1]
        sup = real_iset(d[-2], d[-1])
        if d[0] == "TSO":
            x = nap.Ts(t=G.arr(list(ts)), time_support=sup)
        else:
            vals = np.array([float("nan") if v is None else float(v) for v in d[2]], dtype=np.float64)
            x = nap.Tsd(t=G.arr(list(ts)), d=vals, time_support=sup)
        if [C.to_ns(v) for v in x.index.values] != list(ts) or \
                [(C.to_ns(a), C.to_ns(b)) for a, b in x.time_support.values] != list(zip(d[-2], d[-1])):
            raise RuntimeError(f"gluecmp generator: series {d} was altered by its constructor (samples outside the support?)")
        if len(_SER_CACHE) > 200000:
            _SER_CACHE.clear()
        _SER_CACHE[d] = x
    return x


def r_arg(d):
    k = d[0]
    if k == "N":
        return None
    if k == "i":
        return int(d[1])
    if k == "b":
        return bool(d[1])
    if k == "s":
        return d[1]
    if k == "f":
        return _sec(d[1])
    if k == "d":
        return float("nan") if d[1] is None else float(d[1])
    if k == "F":
        return np.array([_sec(t) for t in d[1]], dtype=np.float64)
    if k == "L":
        return [_sec(t) for t in d[1]]
    if k == "D":
        return np.array([float("nan") if t is None else float(t) for t in d[1]], dtype=np.float64)
    if k == "I":
        return np.array(d[1], dtype=np.int64)
    if k == "B":
        return np.array(d[1], dtype=np.bool_)
    if k == "IS":
        return real_iset(d[1], d[2])
    if k == "TS":
        return real_ts(d[1])
    if k in ("TSO", "TSD"):
        return real_series(d)
    raise ValueError(d)


# ---------------------------------------------------------------------------------------------------------
# the real routines.  SCHEMA: unit of the float leaves of the result: 't' time (ticks), 'd' data (the number itself);
# a tuple of units for a tuple result
def _real_table():
    nap, CF = _nap()
    from pynapple.core import _jitted_functions as JF
    IS = nap.IntervalSet
    return {
        "IntervalSet.__init__": (lambda s, e: IS(start=s, end=e), "t"),
        "IntervalSet.__getitem__": (lambda ep, key: IS.__getitem__(ep, key), "t"),
        "IntervalSet.union": (lambda a, b: IS.union(a, b), "t"),
        "IntervalSet.intersect": (lambda a, b: IS.intersect(a, b), "t"),
        "IntervalSet.set_diff": (lambda a, b: IS.set_diff(a, b), "t"),
        "IntervalSet.in_interval": (lambda ep, ts: IS.in_interval(ep, ts), "d"),
        "IntervalSet.time_span": (lambda ep: IS.time_span(ep), "t"),
        "IntervalSet.tot_length": (lambda ep: IS.tot_length(ep), "t"),
        "IntervalSet.drop_short_intervals": (lambda ep, thr: IS.drop_short_intervals(ep, thr), "t"),
        "IntervalSet.drop_long_intervals": (lambda ep, thr: IS.drop_long_intervals(ep, thr), "t"),
        "IntervalSet.merge_close_intervals": (lambda ep, thr: IS.merge_close_intervals(ep, thr), "t"),
        "_restrict": (lambda t, s, e: CF._restrict(t, s, e), "t"),
        "_count": (lambda t, s, e, b: CF._count(t, s, e, b, np.int64), ("t", "d")),
        "_bin_average": (lambda t, d, s, e, b: CF._bin_average(t, d, s, e, b), ("t", "d")),
        "_threshold": (lambda t, d, s, e, thr, m: CF._threshold(t, d, s, e, thr, m), ("t", "d", "t", "t")),
        "_dropna": (lambda t, d, s, e, u: CF._dropna(t, d, s, e, u, 1), ("t", "d", "t", "t")),
        "jitbin_array": (lambda t, d, s, e, b: JF.jitbin_array(t, d, s, e, b), ("t", "d")),
        "_value_from": (lambda t, tt, d, s, e, m: CF._value_from(t, tt, d, s, e, m), ("t", "d")),
        # G3: bodies of the public methods (time_units / dtype left at their declared defaults)
        "_Base.restrict": (lambda x, ep: x.restrict(ep), "t"),
        "_Base.count": (lambda x, b, ep: x.count(b, ep), "t"),
        "_Base.value_from": (lambda x, data, ep, m: x.value_from(data, ep, m), "t"),
        "_BaseTsd.bin_average": (lambda x, b, ep: x.bin_average(b, ep), "t"),
        "_BaseTsd.dropna": (lambda x, u: x.dropna(u), "t"),
        "Tsd.threshold": (lambda x, thr, m: x.threshold(thr, m), "t"),
        # n_points / time_unit left at their declared defaults (None, "s")
        "_Base.get_slice": (lambda x, a, b: x.get_slice(a, b), "t"),
        "_Base._get_slice": (lambda x, a, b, m: x._get_slice(a, b, m), "t"),
    }


_TABLE = None


def real_table():
    global _TABLE
    if _TABLE is None:
        _TABLE = _real_table()
    return _TABLE


def _norm(fr):
    return int(fr) if fr.denominator == 1 else fr


def tick_cell(x):
    x = float(x)
    if x != x:
        return "nan"
    if x in (float("inf"), float("-inf")):
        return "inf"
    return _norm(Fraction(int(round(x * 2e9)), 2))


def data_cell(x):
    x = float(x)
    if x != x:
        return "nan"
    if x in (float("inf"), float("-inf")):
        return "inf"
    return _norm(Fraction(x).limit_denominator(10 ** 6))


def canon_real(x, unit="t"):
    nap, _ = _nap()
    cell = tick_cell if unit == "t" else data_cell
    if x is None:
        return ("N",)
    if isinstance(x, nap.IntervalSet):
        return ("IS", [(tick_cell(a), tick_cell(b)) for a, b in np.asarray(x.values).reshape(-1, 2)])
    if isinstance(x, (nap.Ts, nap.Tsd, nap.TsdFrame, nap.TsdTensor)):
        vals = canon_real(np.asarray(x.values), "d") if hasattr(x, "values") else ("N",)
        return ("SER", [tick_cell(v) for v in x.index.values], vals,
                [(tick_cell(a), tick_cell(b)) for a, b in np.asarray(x.time_support.values).reshape(-1, 2)])
    if isinstance(x, slice):          # the model's O:slice{start=..;stop=..;step=..}
        return ("O", "slice", [("start", canon_real(x.start, "d")), ("stop", canon_real(x.stop, "d")), ("step", canon_real(x.step, "d"))])
    if isinstance(x, tuple):
        units = unit if isinstance(unit, tuple) else (unit,) * len(x)
        if len(units) != len(x):
            return ("T", [("?", f"{len(x)} components, schema has {len(units)}")])
        return ("T", [canon_real(v, u) for v, u in zip(x, units)])
    if isinstance(unit, tuple):
        return ("?", f"tuple expected, got {type(x).__name__}")
    if isinstance(x, np.ndarray):
        kind = x.dtype.kind
        if x.ndim == 0:
            x = x[()]
        elif kind == "f":
            cells = [cell(v) for v in x.reshape(-1)]
            return ("F", cells) if x.ndim == 1 else ("F2", int(x.shape[0]), int(x.shape[1]), cells)
        elif kind in "iu":
            cells = [int(v) for v in x.reshape(-1)]
            return ("I", cells) if x.ndim == 1 else ("I2", int(x.shape[0]), int(x.shape[1]), cells)
        elif kind == "b":
            cells = [bool(v) for v in x.reshape(-1)]
            return ("B", cells) if x.ndim == 1 else ("B2", int(x.shape[0]), int(x.shape[1]), cells)
        else:
            return ("?", f"array of dtype {x.dtype}")
    if isinstance(x, (bool, np.bool_)):
        return ("b", bool(x))
    if isinstance(x, (int, np.integer)):
        return ("i", int(x))
    if isinstance(x, (float, np.floating)):
        return ("f", cell(x))
    if isinstance(x, str):
        return ("s", x)
    return ("?", f"unexpected value of type {type(x).__name__}")


_IN_REPO = {}


def _explicit(exc):
    """was the exception raised by a `raise` / `assert` statement of pynapple (as opposed to coming out of numpy)?"""
    tb = exc.__traceback__
    if tb is None:
        return False
    while tb.tb_next is not None:
        tb = tb.tb_next
    fn = tb.tb_frame.f_code.co_filename
    inside = _IN_REPO.get(fn)
    if inside is None:
        inside = _IN_REPO[fn] = os.path.realpath(fn).startswith(os.path.realpath(os.path.join(C.REPO, "pynapple")))
    if not inside:
        return False
    line = linecache.getline(fn, tb.tb_lineno).strip()
    return line.startswith("raise") or line.startswith("assert")


def expected_err(exc):
    """the model ERR (kind, detail-or-None) a real exception corresponds to; None when nothing corresponds"""
    name = type(exc).__name__
    if isinstance(exc, IndexError):
        return ("INDEX", None)
    if isinstance(exc, AssertionError):
        return ("RAISE", "AssertionError")
    if isinstance(exc, (ValueError, RuntimeError, TypeError, AttributeError)):
        if _explicit(exc):
            return ("RAISE", name)
        if isinstance(exc, RuntimeError):
            return None
        return ("TYPE", None)
    return None


def run_real(routine, args):
    fn, unit = real_table()[routine]
    rargs = [r_arg(a) for a in args]          # a RuntimeError here is a generator bug (non-canonical operand), not a result
    try:
        out = fn(*rargs)
    except Exception as e:       # noqa: BLE001 - every exception of the routine is a result
        exp = expected_err(e)
        return ("EXC", type(e).__name__, exp, str(e)[:160])
    return canon_real(out, unit)


# ---------------------------------------------------------------------------------------------------------
# parsing of the driver's answers
class _Cur:
    def __init__(self, s):
        self.s, self.p = s, 0

    def peek(self):
        return self.s[self.p] if self.p < len(self.s) else ""

    def until(self, stops):
        st = self.p
        while self.p < len(self.s) and self.s[self.p] not in stops:
            self.p += 1
        return self.s[st:self.p]

    def close(self, ch):
        t = self.until(ch)
        if self.peek() != ch:
            raise ValueError(f"expected {ch!r} in {self.s!r}")
        self.p += 1
        return t


def _pcell(kind, s):
    s = s.strip()
    if kind == "F":
        if s == "nan":
            return "nan"
        return _norm(Fraction(s))
    if kind == "B":
        return s == "1"
    return int(s)


def _pcells(kind, body):
    return [_pcell(kind, c) for c in body.split(",")] if body.strip() else []


def _pvalue(c):
    s = c.s
    if s.startswith("IS[", c.p):
        c.p += 3
        a, b = c.close("]").split("|")
        return ("IS", list(zip(_pcells("F", a), _pcells("F", b))))
    if s.startswith("TS[", c.p):
        c.p += 3
        return ("TS", _pcells("F", c.close("]")))
    if s.startswith("T(", c.p):
        c.p += 2
        items = []
        if c.peek() == ")":
            c.p += 1
            return ("T", items)
        items.append(_pvalue(c))
        while c.peek() == ";":
            c.p += 1
            items.append(_pvalue(c))
        if c.peek() != ")":
            raise ValueError(f"expected ')' in {s!r}")
        c.p += 1
        return ("T", items)
    if s.startswith("O:", c.p):
        c.p += 2
        cls = c.close("{")
        fs = []
        if c.peek() == "}":
            c.p += 1
            return ("O", cls, fs)
        while True:
            name = c.close("=")
            fs.append((name, _pvalue(c)))
            if c.peek() == ";":
                c.p += 1
                continue
            break
        if c.peek() != "}":
            raise ValueError(f"expected '}}' in {s!r}")
        c.p += 1
        return ("O", cls, fs)
    ch = c.peek()
    if ch == "N":
        c.p += 1
        return ("N",)
    if ch in "ifbs" and s[c.p + 1:c.p + 2] == ":":
        c.p += 2
        t = c.until(";)}")
        if ch == "s":
            return ("s", t)
        if ch == "i":
            return ("i", int(t))
        if ch == "b":
            return ("b", t.strip() == "1")
        return ("f", _pcell("F", t))
    if ch in "FIB":
        c.p += 1
        head = c.close("[")
        cells = _pcells(ch, c.close("]"))
        if not head:
            return (ch, cells)
        _, cols, rows = head.split(":")
        return (ch + "2", int(rows), int(cols), cells)
    raise ValueError(f"cannot parse model value {s[c.p:]!r}")


def _as_series(v):
    """the object packaged by the model's constructor environment (kenv_ctor) -> ("SER", t, values | N, support)"""
    if isinstance(v, tuple) and v and v[0] == "O" and v[1] in ("Ts", "Tsd"):
        f = dict(v[2])
        names = [n for n, _ in v[2]]
        if names in (["t", "time_support"], ["t", "values", "time_support"]) and f["t"][0] == "F" and f["time_support"][0] == "IS":
            return ("SER", f["t"][1], f.get("values", ("N",)), f["time_support"][1])
    return v


def parse_model(line):
    """driver line -> canonical tree | ("ERR", kind, detail) | ("BAD", text)"""
    if line.startswith("OK "):
        c = _Cur(line[3:])
        try:
            v = _pvalue(c)
        except (ValueError, IndexError) as e:
            return ("BAD", f"unparsable answer {line!r}: {e}")
        if c.p != len(c.s):
            return ("BAD", f"trailing text in answer {line!r}")
        return _as_series(v)
    if line.startswith("ERR"):
        toks = line.split(" ", 2)
        return ("ERR", toks[1] if len(toks) > 1 else "", toks[2] if len(toks) > 2 else "")
    return ("BAD", line)


def plain(v):
    """canonical tree -> the untagged structure used in reports: ticks (int / Fraction / 'nan'), lists, tuples, pairs"""
    if not isinstance(v, tuple) or not v:
        return v
    k = v[0]
    if k == "N":
        return None
    if k in ("i", "b", "s", "f"):
        return v[1]
    if k in ("F", "I", "B", "TS"):
        return list(v[1])
    if k in ("F2", "I2", "B2"):
        r, c, cells = v[1], v[2], v[3]
        return [list(cells[i * c:(i + 1) * c]) for i in range(r)]
    if k == "IS":
        return [tuple(p) for p in v[1]]
    if k == "SER":
        return {"t": list(v[1]), "values": plain(v[2]), "time_support": [tuple(p) for p in v[3]]}
    if k == "T":
        return tuple(plain(x) for x in v[1])
    if k == "ERR":
        return "ERR " + v[1] + ((" " + v[2]) if v[2] else "")
    if k == "EXC":
        return f"raises {v[1]}: {v[3]}"
    if k == "O":
        return {"class": v[1], "fields": {n: plain(x) for n, x in v[2]}}
    return v


def agree(model, real):
    """(agree?, reason)"""
    if model[0] == "BAD":
        return False, "model: " + str(model[1])
    if real[0] == "EXC":
        exp = real[2]
        if model[0] != "ERR":
            return False, f"implementation raises {real[1]}, the model returns a value"
        if exp is None:
            return False, f"implementation raises {real[1]} (no corresponding model error), model {plain(model)}"
        if model[1] != exp[0] or (exp[1] is not None and model[2].strip() != exp[1]):
            return False, f"implementation raises {real[1]} (expected ERR {exp[0]} {exp[1] or ''}), model {plain(model)}"
        return True, ""
    if model[0] == "ERR":
        return False, f"model {plain(model)}, the implementation returns a value"
    if model != real:
        return False, "results differ"
    return True, ""


# ---------------------------------------------------------------------------------------------------------
# generators.  Everything is on the lattice k * U.
def pts(n, origin=0):
    return [(origin + k) * U for k in range(n)]


def shift_of(i, n):
    """every third case stays at >= 0, one third straddles 0, one third lies below 0"""
    return (0, -(n // 2) * U, -(n + 2) * U)[i % 3]


def sh_iset(A, d):
    return [(s + d, e + d) for s, e in A]


def IS(A):
    return ("IS", tuple(s for s, _ in A), tuple(e for _, e in A))


def rand_iset(rng, max_m, coincide=None):
    """random canonical set on the lattice (gaps of 1, 2, 3 or 5 units), up to max_m intervals"""
    A = G.rand_canonical_iset(rng, max_m, lo=0, hi=10 ** 6, coincide=coincide, gaps=(1, 1, 2, 3, 5))
    return [(s * U, e * U) for s, e in A]


def units_of(A):
    return sorted(set(x // U for iv in A for x in iv))


def canon_sets(n):
    return G.canonical_isets(pts(n), n // 2)


def g_binary(tier, rng):
    n = 6 if tier == "quick" else 8
    sets = canon_sets(n)
    i = 0
    for A in sets:
        for B in sets:
            d = shift_of(i, n)
            i += 1
            yield (IS(sh_iset(A, d)), IS(sh_iset(B, d)))
    for j in range(150 if tier == "quick" else 1500):
        A = rand_iset(rng, 6)
        B = rand_iset(rng, 6, coincide=units_of(A))
        d = (0, -7 * U, -400 * U)[j % 3]
        yield (IS(sh_iset(A, d)), IS(sh_iset(B, d)))


def g_unary_sets(tier, rng):
    """canonical sets, the empty one included, at the three positions; then larger random ones"""
    n = 6 if tier == "quick" else 8
    for A in canon_sets(n):
        for k in range(3):
            yield sh_iset(A, shift_of(k, n))
    for j in range(60 if tier == "quick" else 600):
        yield sh_iset(rand_iset(rng, 7), (0, -7 * U, -400 * U)[j % 3])


def g_unary(tier, rng):
    for A in g_unary_sets(tier, rng):
        yield (IS(A),)


def durations(A):
    return sorted(set(e - s for s, e in A))


def gaps(A):
    return sorted(set(A[i + 1][0] - A[i][1] for i in range(len(A) - 1)))


def g_drop(tier, rng):
    n = 6 if tier == "quick" else 8
    sets = canon_sets(n) + [rand_iset(rng, 7) for _ in range(40 if tier == "quick" else 300)]
    for i, A in enumerate(sets):
        A = sh_iset(A, shift_of(i, n))
        ths = {0, U, -U}
        for x in durations(A) + gaps(A):
            ths.update((x, x + U, x - U))
        ths.add(max(durations(A) or [0]) + 1)          # off-lattice: 1 ns above the longest
        ths.add(max(0, min(durations(A) or [U]) - 1))
        for t in sorted(ths):
            yield (IS(A), ("f", t))
        yield (IS(A), ("i", 0))


def g_merge(tier, rng):
    n = 6 if tier == "quick" else 8
    sets = canon_sets(n) + [rand_iset(rng, 7) for _ in range(40 if tier == "quick" else 300)]
    for i, A in enumerate(sets):
        A = sh_iset(A, shift_of(i, n))
        ths = {0, U, -U}
        for x in gaps(A) + durations(A):
            ths.update((x, x + U, x - U))
        ths.add(max(gaps(A) or [0]) + 1)
        for t in sorted(ths):
            yield (IS(A), ("f", t))
        yield (IS(A), ("i", 0))


def g_getitem(tier, rng):
    n = 6 if tier == "quick" else 8
    for i, A in enumerate(canon_sets(n)):
        A = sh_iset(A, shift_of(i, n))
        m = len(A)
        ep = IS(A)
        for mask in itertools.product((0, 1), repeat=m):
            yield (ep, ("B", mask))
        for wrong in (m - 1, m + 1, m + 2):             # mask of the wrong length: IndexError
            if wrong >= 0:
                yield (ep, ("B", (1,) * wrong))
                yield (ep, ("B", (0,) * wrong))
        rng_idx = list(range(-m - 1, m + 1))            # -m-1 and m are out of range
        yield (ep, ("I", ()))
        for k in rng_idx:
            yield (ep, ("I", (k,)))
        for pair in itertools.product(rng_idx, repeat=2):
            yield (ep, ("I", pair))
        if m >= 2:
            for _ in range(4 if tier == "quick" else 12):
                yield (ep, ("I", tuple(rng.randrange(-m, m) for _ in range(rng.randrange(3, 6)))))


def g_init(tier, rng):
    quick = tier == "quick"
    i = 0

    def pos(k, span):
        return shift_of(k, span)

    # numpy arrays: every (starts, ends) over a small lattice: unsorted, reversed, duplicated, touching, improper pairs
    plan = [(0, 1), (1, 5), (2, 5), (3, 3)] if quick else [(0, 1), (1, 6), (2, 6), (3, 4), (4, 3)]
    for n, npts in plan:
        P = list(range(npts))
        for ss in itertools.product(P, repeat=n):
            for es in itertools.product(P, repeat=n):
                d = pos(i, npts)
                i += 1
                form = "L" if i % 7 == 0 else "F"
                yield ((form, tuple(x * U + d for x in ss)), (form, tuple(x * U + d for x in es)))
    # larger random ones; sorted starts with touching / overlapping ends are frequent
    for j in range(300 if quick else 3000):
        n = rng.randrange(2, 7)
        d = (0, -5 * U, -40 * U)[j % 3]
        mode = rng.randrange(4)
        if mode == 0:                                   # anything
            ss = [rng.randrange(0, 9) for _ in range(n)]
            es = [rng.randrange(0, 9) for _ in range(n)]
        elif mode == 1:                                 # proper but overlapping / touching
            ss = sorted(rng.randrange(0, 9) for _ in range(n))
            es = [s + rng.randrange(0, 4) for s in ss]
        elif mode == 2:                                 # a chain of touching intervals with a few perturbations
            cuts = sorted(rng.sample(range(0, 14), n + 1))
            ss, es = cuts[:-1], cuts[1:]
            if rng.random() < 0.5:
                k = rng.randrange(n)
                es[k] += rng.choice((-1, 1))
        else:                                           # canonical, then reversed or shuffled
            cuts = sorted(rng.sample(range(0, 16), 2 * n))
            ss, es = cuts[0::2], cuts[1::2]
            if rng.random() < 0.5:
                ss, es = ss[::-1], es[::-1]
            else:
                rng.shuffle(ss)
        form = "L" if j % 5 == 0 else "F"
        yield ((form, tuple(x * U + d for x in ss)), (form, tuple(x * U + d for x in es)))
    # scalars, and scalars mixed with one-element arrays / lists
    for s in range(-2, 3):
        for e in range(-2, 3):
            yield (("f", s * U), ("f", e * U))
            yield (("f", s * U), ("F", (e * U,)))
            yield (("L", (s * U,)), ("f", e * U))
    # lengths that differ: AssertionError
    for a, b in ((0, 1), (1, 0), (1, 2), (2, 1), (3, 1), (2, 4)):
        yield (("F", tuple(pts(a))), ("F", tuple(pts(b, 1))))
        yield (("L", tuple(pts(a))), ("F", tuple(pts(b, 1))))
    yield (("f", 0), ("F", (U, 2 * U)))
    yield (("F", (0, U)), ("f", 2 * U))


def scan_cases(tier, rng):
    """(sorted timestamps, canonical set): the set's endpoints on even lattice points, the timestamps on all of them
    (so: before, on a start, inside, on an end, in a gap, after), duplicates included"""
    quick = tier == "quick"
    k = 4 if quick else 5
    P = [2 * j * U for j in range(k)]
    sets = G.canonical_isets(P, k // 2)
    T = [j * U for j in range(-1, 2 * k)]
    tss = G.sorted_multisets(T, 3 if quick else 4)
    i = 0
    for A in sets:
        for ts in tss:
            d = shift_of(i, 2 * k)
            i += 1
            yield tuple(t + d for t in ts), sh_iset(A, d)
    for j in range(150 if quick else 1500):
        A = rand_iset(rng, 5)
        u = units_of(A) or [0, 4]
        ts = sorted(rng.choice((rng.choice(u), rng.choice(u) + rng.choice((-1, 1)), rng.randrange(u[0] - 2, u[-1] + 3))) * U
                    for _ in range(rng.randrange(0, 9)))
        d = (0, -7 * U, -400 * U)[j % 3]
        yield tuple(t + d for t in ts), sh_iset(A, d)


def g_in_interval(tier, rng):
    for ts, A in scan_cases(tier, rng):
        yield (IS(A), ("TS", ts))


def _se(A):
    return ("F", tuple(s for s, _ in A)), ("F", tuple(e for _, e in A))


def g_restrict(tier, rng):
    for ts, A in scan_cases(tier, rng):
        s, e = _se(A)
        yield (("F", ts), s, e)


def g_count(tier, rng):
    bins = [("N",), ("f", U), ("f", 2 * U), ("f", 3 * U)]
    for i, (ts, A) in enumerate(scan_cases(tier, rng)):
        if i % 3 and tier == "quick":
            continue
        s, e = _se(A)
        yield (("F", ts), s, e, bins[0])
        yield (("F", ts), s, e, bins[1 + i % (len(bins) - 1)])


def g_bin_average(tier, rng):
    bins = [("f", U), ("f", 2 * U), ("f", 3 * U)]
    for i, (ts, A) in enumerate(scan_cases(tier, rng)):
        if i % 3 and tier == "quick":
            continue
        if len(set(ts)) != len(ts):
            continue
        s, e = _se(A)
        data = tuple(rng.randrange(0, 4) for _ in ts)
        yield (("F", ts), ("D", data), s, e, bins[i % 3])


def g_threshold(tier, rng):
    methods = ("above", "below", "aboveequal", "belowequal")
    for i, (ts, A) in enumerate(scan_cases(tier, rng)):
        if i % 3 and tier == "quick":
            continue
        ts = tuple(sorted(set(t for t in ts if G.mem(t, A))))       # strictly increasing samples inside the epochs
        s, e = _se(A)
        data = tuple(rng.randrange(0, 4) for _ in ts)
        yield (("F", ts), ("D", data), s, e, ("d", rng.randrange(0, 4)), ("s", methods[i % 4]))


def g_dropna(tier, rng):
    for i, (ts, A) in enumerate(scan_cases(tier, rng)):
        if i % 3 and tier == "quick":
            continue
        ts = tuple(sorted(set(t for t in ts if G.mem(t, A))))
        s, e = _se(A)
        n = len(ts)
        pats = {tuple(None if rng.random() < 0.4 else rng.randrange(0, 4) for _ in ts) for _ in range(2)}
        pats.add((None,) * n)
        pats.add(tuple(range(n)))
        for data in sorted(pats, key=repr):
            for u in (0, 1):
                yield (("F", ts), ("D", data), s, e, ("b", u))


def g_jitbin_array(tier, rng):
    """as _bin_average (whose real counterpart calls it), duplicated timestamps included"""
    bins = [("f", U), ("f", 2 * U), ("f", 3 * U)]
    for i, (ts, A) in enumerate(scan_cases(tier, rng)):
        if i % 3 and tier == "quick":
            continue
        s, e = _se(A)
        data = tuple(rng.randrange(0, 4) for _ in ts)
        yield (("F", ts), ("D", data), s, e, bins[i % 3])
        if i % 5 == 0:
            yield (("F", ts), ("D", data), s, e, bins[(i + 1) % 3])


VF_MODES = ("closest", "before", "after")


def g_value_from(tier, rng):
    """(time_array, time_target_array, data_target_array, starts, ends, mode): the set's endpoints on even lattice points,
    samples and targets on all of them (before / on a start / inside / on an end / in a gap / after; equidistant neighbours
    t - U, t + U; duplicates; empty arrays; intervals without a target or without a sample); 1-D float data without NaN"""
    quick = tier == "quick"
    P = [2 * j * U for j in range(4)]
    sets = G.canonical_isets(P, 2)
    T = [j * U for j in range(-1, 7)]
    tss = G.sorted_multisets(T, 2)
    tts = G.sorted_multisets(T, 2 if quick else 3)
    i = 0
    for A in sets:
        for ts in tss:
            for tt in tts:
                i += 1
                d = shift_of(i, 8)
                s, e = _se(sh_iset(A, d))
                data = tuple(range(1, len(tt) + 1))               # distinct: the chosen target is identified
                modes = (VF_MODES[i % 3],) if quick else VF_MODES
                for m in modes:
                    yield (("F", tuple(t + d for t in ts)), ("F", tuple(t + d for t in tt)), ("D", data), s, e, ("s", m))
    for j in range(400 if quick else 4000):
        A = rand_iset(rng, 4)
        u = units_of(A) or [0, 4]

        def draw(n):
            return tuple(sorted(rng.choice((rng.choice(u), rng.choice(u) + rng.choice((-1, 1)),
                                            rng.randrange(u[0] - 2, u[-1] + 3))) * U for _ in range(n)))
        ts, tt = draw(rng.randrange(0, 8)), draw(rng.randrange(0, 8))
        d = (0, -7 * U, -400 * U)[j % 3]
        s, e = _se(sh_iset(A, d))
        data = tuple(rng.randrange(0, 4) for _ in tt)
        for m in VF_MODES:
            yield (("F", tuple(t + d for t in ts)), ("F", tuple(t + d for t in tt)), ("D", data), s, e, ("s", m))


# ---------- G3: bodies of the public methods; everything below is written in lattice UNITS and scaled by U ----------
def _sc(xs, d):
    return tuple(x * U + d for x in xs)


def _series(ts, A, d, data=None):
    """descriptor of a series with samples ts (units) and support A (units), translated by d ticks.
    A real series without samples always has the EMPTY support (the _Base.__init__ rule), so does its descriptor."""
    if not ts:
        A = []
    ss, es = _sc([a for a, _ in A], d), _sc([b for _, b in A], d)
    if data is None:
        return ("TSO", _sc(ts, d), ss, es)
    return ("TSD", _sc(ts, d), tuple(data), ss, es)


def _iset(A, d):
    return ("IS", _sc([a for a, _ in A], d), _sc([b for _, b in A], d))


def _inside(A, lo, hi, step=1):
    return [p for p in range(lo, hi + 1, step) if any(a <= p <= b for a, b in A)]


def _rand_series(rng, max_n=7, even=False, distinct=False):
    """(samples, support) in units: a random canonical support and sorted samples inside it (on its endpoints too)"""
    A = G.rand_canonical_iset(rng, 4, lo=0, hi=10 ** 6, gaps=(1, 1, 2, 3, 5))
    if even:
        A = [(2 * a, 2 * b) for a, b in A]
    if not A:
        return (), A
    pool = _inside(A, A[0][0], A[-1][1], 2 if even else 1)
    n = rng.randrange(0, max_n + 1)
    ts = sorted(set(rng.choice(pool) for _ in range(n))) if distinct else sorted(rng.choice(pool) for _ in range(n))
    return tuple(ts), A


def g3_restrict(tier, rng):
    quick = tier == "quick"
    sups = [[(0, 5)], [(0, 2), (3, 5)], [(-1, 7)]]
    eps = G.canonical_isets(list(range(6)), 3)
    i = 0
    for S in sups:
        pool = _inside(S, -1, 7)
        for ts in G.sorted_multisets(pool, 2 if quick else 3):
            for ep in eps:
                i += 1
                d = shift_of(i, 8)
                data = tuple((i + 3 * j) % 4 for j in range(len(ts))) if i % 2 else None
                yield (_series(ts, S, d, data), _iset(ep, d))
    for j in range(200 if quick else 3000):
        ts, S = _rand_series(rng)
        u = sorted(set(x for iv in S for x in iv))
        ep = G.rand_canonical_iset(rng, 4, lo=-2, hi=10 ** 6, coincide=u, gaps=(1, 1, 2, 3, 5))
        d = (0, -7 * U, -400 * U)[j % 3]
        data = tuple(rng.randrange(0, 4) for _ in ts) if j % 2 else None
        yield (_series(ts, S, d, data), _iset(ep, d))
    # an `iset` that is not an IntervalSet: explicit raise TypeError
    x = _series((0, 1), [(0, 5)], 0)
    y = _series((0, 1), [(0, 5)], 0, (1, 2))
    for bad in (("F", (0, U)), ("N",), ("f", U), ("TS", (0, U))):
        yield (x, bad)
        yield (y, bad)


def g3_count(tier, rng):
    quick = tier == "quick"
    i = 0
    # bin_size None: endpoints on EVEN units, so that the midpoints start + (end - start) / 2 are whole ticks
    even_eps = G.canonical_isets([0, 2, 4, 6], 2)
    for S, lo, hi in (([(-2, 8)], -2, 8), ([(0, 2), (4, 6)], 0, 6), ([(0, 6)], 0, 6)):
        pool = _inside(S, lo, hi)
        for ts in G.sorted_multisets(pool, 2 if quick else 3):
            for ep in [None] + even_eps:
                i += 1
                if quick and ep is not None and i % 2:
                    continue
                d = (0, -4 * U, -10 * U)[i % 3]                       # even shifts keep the endpoints even
                data = tuple((i + j) % 4 for j in range(len(ts))) if i % 4 == 0 else None
                yield (_series(ts, S, d, data), ("N",), ("N",) if ep is None else _iset(ep, d))
    # bin_size a positive float (ticks), any endpoints
    eps = G.canonical_isets(list(range(6)), 3)
    bins = (U, 2 * U, 3 * U)
    for S in ([(0, 5)], [(0, 2), (3, 5)], [(-1, 7)]):
        pool = _inside(S, -1, 7)
        for ts in G.sorted_multisets(pool, 2 if quick else 3):
            for k, ep in enumerate([None] + eps):
                i += 1
                if quick and i % 4:
                    continue
                d = shift_of(i, 8)
                yield (_series(ts, S, d), ("f", bins[(i + k) % 3]), ("N",) if ep is None else _iset(ep, d))
    for j in range(150 if quick else 2500):
        ts, S = _rand_series(rng, even=(j % 2 == 0))
        d = (0, -8 * U, -400 * U)[j % 3]
        b = ("N",) if j % 2 == 0 else ("f", rng.choice(bins))
        if rng.random() < 0.5:
            ep = ("N",)
        else:
            E = G.rand_canonical_iset(rng, 4, lo=-2, hi=10 ** 6, gaps=(1, 1, 2, 3, 5))
            ep = _iset([(2 * a, 2 * c) for a, c in E] if j % 2 == 0 else E, d)
        yield (_series(ts, S, d), b, ep)
    # half-tick midpoints (start + end odd): tolerated difference of exactly half a tick, counted separately
    x = _series((0, 1, 3), [(0, 5)], 0)
    for ep in ([(0, 1)], [(0, 3), (4, 5)], [(1, 2)], [(0, 1), (2, 5)]):
        yield (x, ("N",), _iset(ep, 0))
        yield (_series((0, 1, 3), [(0, 5)], -3 * U), ("N",), _iset(ep, -3 * U))
    yield (x, ("N",), ("N",))                                          # the support (0, 5U) itself: midpoint 5U/2
    # errors: bin_size <= 0 (ValueError), a string (TypeError); ep not an IntervalSet (TypeError)
    for b in (("f", 0), ("f", -U), ("s", "x"), ("s", "")):
        yield (x, b, ("N",))
        yield (x, b, _iset([(0, 2)], 0))
    yield (x, ("f", U), ("F", (0, U)))
    yield (x, ("N",), ("F", (0, U)))
    yield (x, ("f", 0), ("F", (0, U)))                                 # both wrong: the bin_size test comes first


def g3_value_from(tier, rng):
    quick = tier == "quick"
    wide = [(-2, 8)]
    sets = G.canonical_isets([0, 2, 4, 6], 2)
    T = list(range(-1, 7))
    tss = G.sorted_multisets(T, 2)
    i = 0
    for A in sets:
        # ep given: the target's own support is wide; ep None: the target's support IS the set (targets inside it)
        for ep_none in (False, True):
            if ep_none and not A:
                continue
            tpool = _inside(A, -1, 6) if ep_none else T
            for tt in G.sorted_multisets(tpool, 2 if quick else 3):
                for ts in tss:
                    i += 1
                    if i % (7 if quick else 3):
                        continue
                    d = shift_of(i, 8)
                    data = _series(tt, A if ep_none else wide, d, tuple(range(1, len(tt) + 1)))
                    me = _series(ts, wide, d, tuple(0 for _ in ts) if i % 5 == 0 else None)
                    yield (me, data, ("N",) if ep_none else _iset(A, d), ("s", VF_MODES[(i // 7) % 3]))
    for j in range(150 if quick else 3000):
        tt, S = _rand_series(rng)
        if not S:
            continue
        lo, hi = S[0][0] - 2, S[-1][1] + 2
        ts = tuple(sorted(rng.randrange(lo, hi + 1) for _ in range(rng.randrange(0, 8))))
        d = (0, -7 * U, -400 * U)[j % 3]
        if rng.random() < 0.5:
            ep = ("N",)
        else:
            ep = _iset(G.rand_canonical_iset(rng, 4, lo=lo, hi=10 ** 6, coincide=sorted(set(x for iv in S for x in iv)),
                                             gaps=(1, 1, 2, 3, 5)), d)
        yield (_series(ts, [(lo, hi)], d), _series(tt, S, d, tuple(rng.randrange(0, 4) for _ in tt)), ep, ("s", VF_MODES[j % 3]))
    # errors: data not a series (TypeError), ep not an IntervalSet (TypeError), invalid mode (ValueError); in that order
    me = _series((0, 1, 3), wide, 0)
    data = _series((0, 2), wide, 0, (1, 2))
    for m in ("nearest", "", "Closest"):
        yield (me, data, ("N",), ("s", m))
        yield (me, data, _iset([(0, 4)], 0), ("s", m))
    for bad in (("F", (0, U)), ("N",), ("f", 0)):
        yield (me, bad, ("N",), ("s", "closest"))
        yield (me, bad, _iset([(0, 4)], 0), ("s", "nearest"))
    yield (me, data, ("F", (0, U)), ("s", "closest"))
    yield (me, data, ("F", (0, U)), ("s", "nearest"))
    yield (me, me, ("N",), ("s", "closest"))                           # a Ts as data: a _Base without .values (AttributeError)


def g3_bin_average(tier, rng):
    quick = tier == "quick"
    eps = G.canonical_isets(list(range(6)), 3)
    bins = (U, 2 * U, 3 * U)
    i = 0
    for S in ([(0, 5)], [(0, 2), (3, 5)], [(-1, 7)]):
        pool = _inside(S, -1, 7)
        for ts in G.sorted_multisets(pool, 2 if quick else 3):
            for k, ep in enumerate([None] + eps):
                i += 1
                if quick and i % 3:
                    continue
                d = shift_of(i, 8)
                data = tuple((i + 3 * j) % 4 for j in range(len(ts)))
                yield (_series(ts, S, d, data), ("f", bins[(i + k) % 3]), ("N",) if ep is None else _iset(ep, d))
    for j in range(150 if quick else 2500):
        ts, S = _rand_series(rng)
        d = (0, -7 * U, -400 * U)[j % 3]
        ep = ("N",) if rng.random() < 0.5 else _iset(G.rand_canonical_iset(rng, 4, lo=-2, hi=10 ** 6, gaps=(1, 1, 2, 3, 5)), d)
        yield (_series(ts, S, d, tuple(rng.randrange(0, 4) for _ in ts)), ("f", rng.choice(bins)), ep)
    x = _series((0, 1, 3), [(0, 5)], 0, (1, 2, 3))
    for b in (("f", 0), ("f", -U), ("i", 0), ("i", -1)):
        yield (x, b, ("N",))
        yield (x, b, _iset([(0, 2)], 0))
    yield (x, ("f", U), ("F", (0, U)))                                 # ep not an IntervalSet: the time_support is used


def g3_dropna(tier, rng):
    quick = tier == "quick"
    i = 0
    for S in ([(0, 7)], [(0, 3), (4, 7)], [(-1, 8)]):
        pool = _inside(S, -1, 8)
        for n in range(0, (3 if quick else 4) + 1):
            for ts in itertools.combinations(pool, n):                 # distinct samples, >= U apart
                for pat in itertools.product((0, 1), repeat=n):
                    i += 1
                    d = shift_of(i, 9)
                    data = tuple(None if p else (i + j) % 3 for j, p in enumerate(pat))
                    x = _series(ts, S, d, data)
                    yield (x, ("b", 1))
                    yield (x, ("b", 0))
    for j in range(100 if quick else 2000):
        ts, S = _rand_series(rng, max_n=8, distinct=True)
        d = (0, -7 * U, -400 * U)[j % 3]
        data = tuple(None if rng.random() < 0.45 else rng.randrange(0, 4) for _ in ts)
        x = _series(ts, S, d, data)
        yield (x, ("b", 1))
        yield (x, ("b", 0))
    x = _series((0, 1, 3), [(0, 5)], 0, (1, None, 3))
    for bad in (("i", 1), ("i", 0), ("N",), ("s", "True"), ("f", U)):
        yield (x, bad)


TH_METHODS = ("above", "below", "aboveequal", "belowequal")


def g3_threshold(tier, rng):
    quick = tier == "quick"
    i = 0
    thrs = (1, Fraction(1, 2), Fraction(3, 2))
    for S in ([(0, 8)], [(-1, 9)], [(0, 2), (4, 8)], [(0, 3), (5, 9)]):
        pool = _inside(S, 0, 8, 2)                                     # samples on EVEN units: the midpoints are whole ticks
        for n in range(0, (3 if quick else 4) + 1):
            for ts in itertools.combinations(pool, n):
                for data in itertools.product((0, 1, 2), repeat=n):
                    i += 1
                    d = (0, -4 * U, -12 * U)[i % 3]                    # even shifts
                    x = _series(ts, S, d, data)
                    if quick:
                        yield (x, ("d", thrs[i % 2]), ("s", TH_METHODS[(i // 2) % 4]))
                    else:
                        for m in TH_METHODS:
                            yield (x, ("d", thrs[i % 3]), ("s", m))
    for j in range(150 if quick else 3000):
        ts, S = _rand_series(rng, max_n=8, even=True, distinct=True)
        d = (0, -8 * U, -400 * U)[j % 3]
        x = _series(ts, S, d, tuple(rng.randrange(0, 4) for _ in ts))
        yield (x, ("d", rng.choice((0, 1, 2, 3, Fraction(1, 2), Fraction(3, 2), Fraction(5, 2)))), ("s", TH_METHODS[j % 4]))
    x = _series((0, 2, 4), [(0, 8)], 0, (0, 2, 1))
    for m in ("foo", "", "Above", "greater"):
        yield (x, ("d", 1), ("s", m))


GS_MODES = ("before_t", "after_t", "closest_t", "restrict")


def _slice_cases(tier, rng):
    """(series, start, end | None) in ticks.  Samples among 0, 2, 3, 6 units (so 1 is equidistant from two samples, 4 / 5 are
    nearer to one side), duplicates and the EMPTY series included; start / end on every unit from -1 (before the first
    sample) to 7 (after the last): on a sample, between, equidistant; start > end included (ValueError)"""
    quick = tier == "quick"
    i = 0
    for ts in G.sorted_multisets([0, 2, 3, 6], 3 if quick else 4):
        for a in range(-1, 8):
            for b in [None] + list(range(-1, 8)):
                i += 1
                if quick and b is not None and a > b and i % 3:       # start > end (ValueError): one case in three
                    continue
                d = shift_of(i, 9)
                x = _series(ts, [(-2, 9)], d, tuple((i + j) % 3 for j in range(len(ts))) if i % 2 else None)
                yield x, ("f", a * U + d), ("N",) if b is None else ("f", b * U + d)
    for j in range(200 if quick else 4000):
        ts, S = _rand_series(rng, max_n=9)
        lo, hi = (S[0][0] - 2, S[-1][1] + 2) if S else (-2, 2)
        d = (0, -7 * U, -400 * U)[j % 3]
        a = rng.choice(ts) + rng.choice((-1, 0, 0, 1)) if ts and rng.random() < 0.7 else rng.randrange(lo, hi + 1)
        r = rng.random()
        b = None if r < 0.3 else (rng.choice(ts) + rng.choice((-1, 0, 0, 1)) if ts and r < 0.8 else rng.randrange(lo, hi + 1))
        yield _series(ts, S, d), ("f", a * U + d), ("N",) if b is None else ("f", b * U + d)


def _slice_bad(mode_too):
    """arguments of the wrong kind; on the empty series the order of the tests shows (ValueError before IndexError)"""
    for x in (_series((0, 2, 3), [(-2, 9)], 0), _series((), [], 0)):
        for a, b in ((("s", "x"), ("N",)), (("N",), ("N",)), (("s", "0"), ("f", U)), (("f", 0), ("s", "x")), (("f", 2 * U), ("s", "")),
                     (("s", "x"), ("s", "y")), (("i", 0), ("N",)), (("i", 0), ("f", 2 * U)), (("f", 0), ("i", 0)), (("f", U), ("i", 0))):
            if not mode_too:
                yield (x, a, b)
            else:
                for m in GS_MODES + ("closest", "", "Restrict"):
                    yield (x, a, b, ("s", m))
        if mode_too:
            for m in ("closest", "", "Restrict", "after"):
                for a, b in ((("f", 0), ("N",)), (("f", 0), ("f", U)), (("f", U), ("f", 0))):
                    yield (x, a, b, ("s", m))


def g3_get_slice(tier, rng):
    for x, a, b in _slice_cases(tier, rng):
        yield (x, a, b)
    yield from _slice_bad(False)


def g3__get_slice(tier, rng):
    for x, a, b in _slice_cases(tier, rng):
        for m in GS_MODES:
            yield (x, a, b, ("s", m))
    yield from _slice_bad(True)


GENERATORS = {
    "IntervalSet.__init__": g_init,
    "IntervalSet.__getitem__": g_getitem,
    "IntervalSet.union": g_binary,
    "IntervalSet.intersect": g_binary,
    "IntervalSet.set_diff": g_binary,
    "IntervalSet.in_interval": g_in_interval,
    "IntervalSet.time_span": g_unary,
    "IntervalSet.tot_length": g_unary,
    "IntervalSet.drop_short_intervals": g_drop,
    "IntervalSet.drop_long_intervals": g_drop,
    "IntervalSet.merge_close_intervals": g_merge,
    "_restrict": g_restrict,
    "_count": g_count,
    "_bin_average": g_bin_average,
    "_threshold": g_threshold,
    "_dropna": g_dropna,
    "jitbin_array": g_jitbin_array,
    "_value_from": g_value_from,
    "_Base.restrict": g3_restrict,
    "_Base.count": g3_count,
    "_Base.value_from": g3_value_from,
    "_BaseTsd.bin_average": g3_bin_average,
    "_BaseTsd.dropna": g3_dropna,
    "Tsd.threshold": g3_threshold,
    "_Base.get_slice": g3_get_slice,
    "_Base._get_slice": g3__get_slice,
}


def cases_of(routine, tier, seed):
    rng = random.Random(f"glue:{seed}:{routine}")
    seen, out = set(), []
    for a in GENERATORS[routine](tier, rng):
        if a not in seen:
            seen.add(a)
            out.append(a)
    return out


def size_of(args):
    n = 0
    for d in args:
        for x in d[1:]:
            n += len(x) if isinstance(x, (tuple, list, str)) else 1
    return n


def nontrivial(args):
    return any(isinstance(x, tuple) and len(x) > 0 for d in args for x in d[1:])


# ---------------------------------------------------------------------------------------------------------
def half_tick_only(model, real):
    """_Base.count(bin_size=None): the midpoint start + (end - start) / 2 is a half tick when start + end is odd; the real
    constructor rounds it to a whole tick (np.around 9), the model's packaging constructor keeps the exact half tick.
    True when the two series differ ONLY by exactly half a tick on such cells of the time array."""
    if model[0] != "SER" or real[0] != "SER" or model[2:] != real[2:] or len(model[1]) != len(real[1]):
        return False
    diffs = []
    for a, b in zip(model[1], real[1]):
        if isinstance(a, str) or isinstance(b, str):
            return False
        diffs.append(abs(Fraction(a) - Fraction(b)))
    return all(x in (0, Fraction(1, 2)) for x in diffs) and any(diffs) and \
        all(Fraction(a).denominator == 2 for a, x in zip(model[1], diffs) if x)


def compare_cases(cases):
    """cases: list of (routine, args).  One driver call for all of them.
    Returns a list of dicts {routine, input, model_line, model_raw, model, real, agree, why, kernel_missing}."""
    warnings.simplefilter("ignore")
    lines = [model_line(r, a) for r, a in cases]
    out = C.run_model(lines, driver=DRIVER) if lines else []
    res = []
    for (routine, args), line, ml in zip(cases, lines, out):
        model = parse_model(ml)
        real = run_real(routine, args)
        missing = routine in KERNEL_MAY_BE_MISSING and model[0] == "ERR" and model[1] == "KERNEL"
        ok, why = (True, "") if missing else agree(model, real)
        tolerated = None
        if not ok and routine == "_Base.count" and args[1] == ("N",) and half_tick_only(model, real):
            ok, why, tolerated = True, "", "half-tick-midpoint"
        res.append({"routine": routine, "input": args, "model_line": line, "model_raw": ml, "model": model, "real": real,
                    "agree": ok, "why": why, "kernel_missing": missing, "tolerated": tolerated})
    return res


def check(res, routines, tier, seed):
    """run every routine of `routines` on its generated inputs; fill the harness Result `res`"""
    warnings.simplefilter("ignore")
    unknown = [r for r in routines if r not in GENERATORS]
    if unknown:
        raise KeyError(f"gluecmp: no generator for {unknown}")
    cases = []
    for r in routines:
        cases.extend((r, a) for a in cases_of(r, tier, seed))
    for c in compare_cases(cases):
        r = c["routine"]
        res.count("glue:" + r)
        res.case(("glue", r, c["input"]), nontrivial=nontrivial(c["input"]))
        if c["kernel_missing"]:
            res.count("glue:" + r + ":kernel-missing")
            continue
        if c["real"][0] == "EXC":
            res.count("glue:" + r + ":raises")
        if c.get("tolerated"):
            res.count("glue:" + r + ":" + c["tolerated"])
        if not c["agree"]:
            res.disagreements.append({"routine": r, "input": c["input"], "model": plain(c["model"]), "impl": plain(c["real"]),
                                      "why": c["why"], "model_line": c["model_line"], "model_raw": c["model_raw"],
                                      "size": size_of(c["input"])})
    return res


def main(argv):
    if len(argv) < 2 or argv[1] in ("-h", "--help"):
        print(__doc__)
        print("routines:", ", ".join(G1 + G2 + G3))
        return 2
    names = {"G1": G1, "G2": G2, "G3": G3, "all": G1 + G2 + G3}.get(argv[1], [argv[1]])
    tier = argv[2] if len(argv) > 2 else "quick"
    seed = int(argv[3]) if len(argv) > 3 else 0
    t0 = time.time()
    res = C.Result()
    check(res, names, tier, seed)
    wall = time.time() - t0
    for r in names:
        nd = sum(1 for d in res.disagreements if d["routine"] == r)
        extra = ""
        if res.dist.get("glue:" + r + ":kernel-missing"):
            extra += f" kernel-missing={res.dist['glue:' + r + ':kernel-missing']}"
        if res.dist.get("glue:" + r + ":raises"):
            extra += f" raising={res.dist['glue:' + r + ':raises']}"
        if res.dist.get("glue:" + r + ":half-tick-midpoint"):
            extra += f" half-tick-midpoint={res.dist['glue:' + r + ':half-tick-midpoint']}"
        print(f"{r:38s} cases={res.dist.get('glue:' + r, 0):6d} disagreements={nd:5d}{extra}")
    for d in sorted(res.disagreements, key=lambda d: (d["size"], repr(d["input"])))[:5]:
        print("  DISAGREE", d["routine"], "--", d["why"])
        print("     input:", d["input"])
        print("     line :", d["model_line"].replace("\t", "  "))
        print("     model:", d["model"], "   raw:", d["model_raw"])
        print("     impl :", d["impl"])
    print(f"gluecmp: {res.evaluations} cases, {len(res.keys)} non-trivial, {len(res.disagreements)} disagreements, "
          f"tier={tier} seed={seed}, wall {wall:.1f} s")
    return 0 if not res.disagreements else 1


if __name__ == "__main__":
    sys.exit(main(sys.argv))
