"""Worker for C15, run as a subprocess so that the numba cache directory matches the bounds-check mode.
usage: c15_worker.py <out.json> <n_per_kernel> <seed> [public]
Uses harness/jitcmp.py (three-way execution: compiled kernel, .py_func, translated Jit.Lang term in the
extracted checked interpreter).  With NUMBA_BOUNDSCHECK=1 also runs the degenerate PUBLIC calls."""
import json
import os
import random
import sys
import warnings

sys.path.insert(0, os.path.dirname(os.path.abspath(__file__)))
import jitcmp  # noqa: E402  (sets up the environment, imports the kernels)

out_path, n, seed = sys.argv[1], int(sys.argv[2]), sys.argv[3]
do_public = len(sys.argv) > 4 and sys.argv[4] == "public"
report = {"bc": jitcmp.BC, "kernels": {}, "public": []}
for name, g in jitcmp.GENERATORS.items():
    meta = [k for k in jitcmp.META["kernels"] if k["name"] == name]
    if not meta or not meta[0].get("translated", False):
        report["kernels"][name] = {"translated": False, "cases": 0, "records": []}
        continue
    rng = random.Random(f"{seed}:{name}")
    seen, cases, tries = set(), [], 0
    while len(cases) < n and tries < 20 * n:
        tries += 1
        a = g(rng)
        k = repr(a)
        if k not in seen:
            seen.add(k)
            cases.append(a)
    res = jitcmp.compare_many(name, cases)
    recs = []
    sizes = {}
    for r in res:
        sz = tuple(len(a[1]) if a[0] in ("F", "I", "B") else -1 for a in r["args"])
        sizes[str(sz)] = sizes.get(str(sz), 0) + 1
        if (not r["agree"]) or r["unsafe"]:
            recs.append({"args": r["args"], "model": r["model"], "pyfunc": [str(x)[:200] for x in r["pyfunc"]], "compiled": [str(x)[:200] for x in r["compiled"]],
                         "problems": r["problems"], "unsafe": r["unsafe"], "model_line": r["model_line"]})
    report["kernels"][name] = {"translated": True, "cases": len(res), "records": recs, "hash": meta[0]["hash"][:16], "sites": meta[0]["sites"],
                               "degenerate": sum(v for k, v in sizes.items() if "0" in k.replace("-1", "") or "1" in k.replace("-1", "")), "sample": res[0]["model_line"] if res else ""}

if do_public:
    warnings.simplefilter("ignore")
    import numpy as np
    import pynapple as nap
    E = np.array([])
    ep = nap.IntervalSet([0.0, 10.0], [5.0, 15.0])
    ep_before = nap.IntervalSet(0.0, 1.0)
    empty_ep = nap.IntervalSet([], [])
    ts = nap.Ts(np.array([2.0, 3.0, 12.0]))
    tse = nap.Ts(E)
    tsd = nap.Tsd(np.array([2.0, 3.0, 12.0]), np.array([1.0, 2.0, 3.0]))
    tsde = nap.Tsd(E, E)
    one = nap.Ts(np.array([3.0]))
    oned = nap.Tsd(np.array([3.0]), np.array([1.0]))
    calls = {
        "empty.restrict(ep)": lambda: tse.restrict(ep), "ts.restrict(empty_ep)": lambda: ts.restrict(empty_ep), "ts.restrict(ep before data)": lambda: nap.Ts(np.array([20.0, 30.0])).restrict(ep_before),
        "empty.count(1.0, ep)": lambda: tse.count(1.0, ep), "ts.count(1.0, empty_ep)": lambda: ts.count(1.0, empty_ep), "ts.count(ep=empty_ep)": lambda: ts.count(ep=empty_ep),
        "emptytsd.bin_average(1.0, ep)": lambda: tsde.bin_average(1.0, ep), "ts.value_from(emptytsd, ep)": lambda: ts.value_from(tsde, ep), "empty.value_from(tsd, ep)": lambda: tse.value_from(tsd, ep),
        "ts.value_from(one-sample, before)": lambda: nap.Ts(np.array([0.0])).value_from(nap.Tsd(np.array([1.0, 1.0]), np.array([5.0, 6.0]))[0:1], nap.IntervalSet(0.0, 1.0), mode="before"),
        "TsGroup with an empty member": lambda: nap.TsGroup({0: ts, 1: tse, 2: ts}), "single-sample slice": lambda: one[0:1], "emptytsd.threshold": lambda: tsde.threshold(0.5),
        "one-sample tsd.threshold": lambda: oned.threshold(0.5), "zero-span tsd.threshold": lambda: nap.Tsd(np.array([3.0, 3.0]), np.array([1.0, 0.0])).threshold(0.5),
        "tsd.threshold multi-epoch": lambda: nap.Tsd(np.array([2.0, 12.0]), np.array([0.0, 1.0]), time_support=ep).threshold(0.5), "ep.in_interval(empty)": lambda: ep.in_interval(tse),
        "empty_ep.in_interval(ts)": lambda: empty_ep.in_interval(ts), "one-sample dropna": lambda: nap.Tsd(np.array([3.0, 4.0]), np.array([np.nan, 1.0])).dropna(),
        "IntervalSet(empty)": lambda: nap.IntervalSet(E, E), "ep.union(empty)": lambda: ep.union(empty_ep), "empty.intersect(ep)": lambda: empty_ep.intersect(ep), "empty.set_diff(ep)": lambda: empty_ep.set_diff(ep),
        "ep.set_diff(ep)": lambda: ep.set_diff(ep), "crosscorr with empty target": lambda: nap.compute_crosscorrelogram(nap.TsGroup({0: ts, 1: tse}, time_support=nap.IntervalSet(0.0, 20.0)), 1.0, 3.0),
        "perievent_continuous one sample": lambda: nap.compute_perievent_continuous(nap.Tsd(np.array([0.0, 1.0]), np.array([1.0, 2.0])), nap.Ts(np.array([0.5])), 1.0),
        "perievent_continuous no event": lambda: nap.compute_perievent_continuous(nap.Tsd(np.arange(5.0), np.arange(5.0)), nap.Ts(np.array([50.0])), 1.0, ep=nap.IntervalSet(0.0, 4.0)),
        # IEEE-only: a step lost to rounding at large |t| (exact rationals advance; doubles did not: fixed in d86eb2b)
        "mean_psd step absorbed by rounding": lambda: nap.compute_mean_power_spectral_density(nap.Tsd(1.7e9 + np.arange(0, 1, 0.001), np.arange(1000.0)), 1e-7),
        "_overlap_split step shrunk by rounding": lambda: __import__("pynapple.process.spectrum", fromlist=["x"])._overlap_split(np.array([1.7e9]), np.array([1.7e9 + 0.01]), 3.3e-7, 0.0),
        "mean_psd short": lambda: nap.compute_mean_power_spectral_density(nap.Tsd(np.arange(0, 2, 0.01), np.arange(200.0)), 0.5),
    }
    for label, f in calls.items():
        try:
            f()
            report["public"].append({"call": label, "outcome": "ok"})
        except IndexError as ex:
            report["public"].append({"call": label, "outcome": "IndexError", "msg": str(ex)[:200]})
        except Exception as ex:
            report["public"].append({"call": label, "outcome": "raised " + type(ex).__name__, "msg": str(ex)[:120]})
json.dump(report, open(out_path, "w"), indent=1, default=str)
