"""Worker for C15, run as a subprocess so that the numba cache directory matches the bounds-check mode.
usage: c15_worker.py <out.json> <n_per_kernel> <seed> [public]
Uses harness/jitcmp.py (three-way execution: compiled kernel, .py_func, translated Jit.Lang term in the
extracted checked interpreter).  With NUMBA_BOUNDSCHECK=1 also runs the degenerate PUBLIC calls."""
import json
import os
import random
import sys
import warnings

sys.path.insert(0, os.path.dirname(os.path.abspath(__file__)))
import jitcmp  # noqa: E402  (sets up the environment, imports the kernels)

out_path, n, seed = sys.argv[1], int(sys.argv[2]), sys.argv[3]
do_public = len(sys.argv) > 4 and sys.argv[4] == "public"
report = {"bc": jitcmp.BC, "kernels": {}, "public": []}
for name, g in jitcmp.GENERATORS.items():
    meta = [k for k in jitcmp.META["kernels"] if k["name"] == name]
    if not meta or not meta[0].get("translated", False):
        report["kernels"][name] = {"translated": False, "cases": 0, "records": []}
        continue
    rng = random.Random(f"{seed}:{name}")
    seen, cases, tries = set(), [], 0
    while len(cases) < n and tries < 20 * n:
        tries += 1
        a = g(rng)
        k = repr(a)
        if k not in seen:
            seen.add(k)
            cases.append(a)
    res = jitcmp.compare_many(name, cases)
    recs = []
    sizes = {}
    for r in res:
        sz = tuple(len(a[1]) if a[0] in ("F", "I", "B") else -1 for a in r["args"])
        sizes[str(sz)] = sizes.get(str(sz), 0) + 1
        if (not r["agree"]) or r["unsafe"]:
            recs.append({"args": r["args"], "model": r["model"], "pyfunc": [str(x)[:200] for x in r["pyfunc"]], "compiled": [str(x)[:200] for x in r["compiled"]],
                         "problems": r["problems"], "unsafe": r["unsafe"], "model_line": r["model_line"]})
    report["kernels"][name] = {"translated": True, "cases": len(res), "records": recs, "hash": meta[0]["hash"][:16], "sites": meta[0]["sites"],
                               "degenerate": sum(v for k, v in sizes.items() if "0" in k.replace("-1", "") or "1" in k.replace("-1", "")), "sample": res[0]["model_line"] if res else ""}

if do_public:
    import c15_public  # noqa: E402
    report["public"] = c15_public.run_calls(string_probes=False)
json.dump(report, open(out_path, "w"), indent=1, default=str)
