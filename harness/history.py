"""Histories of public operations over a store of live objects (DESIGN.md 3.4, tier W), shared by C04 and C10.
A history is a list of operations; each appends its result to the store.  The MODELLED operations have the
same encoding as `op` of coq/Model/Store.v and are also run by the extracted model; the UNMODELLED ones are run
on the implementation only (oracles still apply).  Times are ticks; the lattice step is 2*U (even ticks on the
dyadic lattice 2^-8 s) so that threshold midpoints are whole ticks and exact in float."""
import copy
import random
import warnings

import numpy as np

import common as C
import gen as G

U2 = 2 * 1953125
NPT = 24


def lat(k):
    return k * U2


class Real:
    """the implementation side of the store"""

    def __init__(self, nap):
        self.nap = nap
        self.objs = []      # aligned with the model's store
        self.extra = []     # results of unmodelled operations

    def ep_of(self, i):
        o = self.objs[i] if i < len(self.objs) else self.nap.IntervalSet([], [])
        return o if isinstance(o, self.nap.IntervalSet) else o.time_support

    def ts_of(self, i):
        o = self.objs[i] if i < len(self.objs) else None
        if o is None or isinstance(o, self.nap.IntervalSet):
            return self.nap.Tsd(np.array([]), np.array([]))
        return o


def abstract(nap, o):
    if isinstance(o, nap.IntervalSet):
        return "E " + " ".join("%d %d" % (C.to_ns(s), C.to_ns(e)) for s, e in o.values)
    return "T " + " ".join(str(C.to_ns(x)) for x in o.t) + " / " + " ".join("%d %d" % (C.to_ns(s), C.to_ns(e)) for s, e in o.time_support.values)


def norm_abs(s):
    return " ".join(s.split())


def wf_oracle(nap, o):
    """the statement of C04 on one real object; returns None or a description"""
    if isinstance(o, nap.IntervalSet):
        v = np.asarray(o.values)
        if not (all(v[i, 0] < v[i, 1] for i in range(len(v))) and all(v[i, 1] < v[i + 1, 0] for i in range(len(v) - 1))):
            return "IntervalSet not canonical"
        return None
    if isinstance(o, nap.TsGroup):
        sup = np.asarray(o.time_support.values)
        keys = list(o.keys())
        if keys != sorted(keys):
            return "TsGroup keys not sorted"
        for k in keys:
            m = o[k]
            r = wf_oracle(nap, m)
            if r:
                return "member %s: %s" % (k, r)
            if len(m) and not np.array_equal(np.asarray(m.time_support.values), sup):
                return "non-empty member %s does not carry the group's time support" % k
        return wf_oracle(nap, o.time_support)
    t = np.asarray(o.t)
    if len(t) > 1 and not np.all(np.diff(t) >= 0):
        return "timestamps not sorted"
    if hasattr(o, "values") and len(o.values) != len(t):
        return "number of data rows differs from number of timestamps"
    sup = np.asarray(o.time_support.values)
    r = wf_oracle(nap, o.time_support)
    if r:
        return "support: " + r
    if len(t) and len(sup) == 0 and float(t[0]) == float(t[-1]):
        return "zero-span series (all timestamps equal) built without a time support: its default support IntervalSet(t0, t0) is empty, so its samples lie outside it"
    for x in t:
        if not any(s <= x <= e for s, e in sup):
            return "timestamp %r outside the time support" % float(x)
    if len(t):
        tot = np.sum(sup[:, 1] - sup[:, 0])
        if not (o.rate == len(t) / tot):
            return "rate %r != n / total support duration %r" % (float(o.rate), float(len(t) / tot))
    return None


def snapshot(nap, o):
    if isinstance(o, nap.IntervalSet):
        return ("E", np.array(o.values, copy=True), o.metadata.copy(deep=True))
    if isinstance(o, nap.TsGroup):
        return ("G", tuple(o.keys()), tuple(snapshot(nap, o[k]) for k in o.keys()), np.array(o.time_support.values, copy=True), o.metadata.copy(deep=True))
    vals = np.array(o.values, copy=True) if hasattr(o, "values") else None
    cols = tuple(o.columns) if hasattr(o, "columns") else None
    meta = o.metadata.copy(deep=True) if hasattr(o, "metadata") and isinstance(o, nap.TsdFrame) else None
    return ("T", np.array(o.t, copy=True), vals, np.array(o.time_support.values, copy=True), cols, meta)


def snap_equal(a, b):
    if type(a) is not type(b):
        return False
    if isinstance(a, tuple):
        return len(a) == len(b) and all(snap_equal(x, y) for x, y in zip(a, b))
    if isinstance(a, np.ndarray):
        return a.shape == b.shape and np.array_equal(a, b, equal_nan=True) if a.dtype.kind == "f" else (a.shape == b.shape and np.array_equal(a, b))
    if hasattr(a, "equals"):
        return a.equals(b)
    return a == b


# ------------------------------------------------------------------------------------------------------
# generation
def gen_history(rng, length):
    """returns list of (code string for the model, python closure spec)"""
    ops = []
    kinds = []  # 'T' or 'E' per store slot
    def ts_slots():
        return [i for i, k in enumerate(kinds) if k == "T"]
    def ep_slots():
        return [i for i, k in enumerate(kinds) if k == "E"]
    # starting objects: two series with positive span, one interval set
    for _ in range(2):
        n = rng.randint(2, 9)
        t = sorted(rng.sample(range(NPT), n))
        if rng.random() < 0.3:
            rng.shuffle(t)
        ops.append(("MT", (), [lat(x) for x in t], []))
        kinds.append("T")
    while len(ops) < length:
        r = rng.random()
        T, E = ts_slots(), ep_slots()
        if r < 0.12 or not E:
            m = rng.randint(0, 3)
            pts = sorted(rng.sample(range(NPT), 2 * m))
            ss, es = [lat(x) for x in pts[0::2]], [lat(x) for x in pts[1::2]]
            if rng.random() < 0.3 and m >= 2:      # malformed: overlapping / touching / unsorted
                es[0] = ss[1] if rng.random() < 0.5 else es[1]
            ops.append(("ME", (), ss, es)); kinds.append("E")
        elif r < 0.17:
            n = rng.randint(0, 8)
            ops.append(("MS", (rng.choice(E),), [lat(x) for x in sorted(rng.choices(range(NPT), k=n))], [])); kinds.append("T")
        elif r < 0.24:
            ops.append(("SU", (rng.choice(T),), [], [])); kinds.append("E")
        elif r < 0.36:
            ops.append(("R", (rng.choice(T), rng.choice(E)), [], [])); kinds.append("T")
        elif r < 0.44:
            a, b = sorted(rng.choices(range(-1, NPT + 1), k=2))
            ops.append(("G", (rng.choice(T), lat(a), lat(b)), [], [])); kinds.append("T")
        elif r < 0.52:
            ops.append(("C", (rng.choice(T), rng.choice(E), lat(rng.choice([1, 2, 3]))), [], [])); kinds.append("T")
        elif r < 0.58:
            ops.append(("V", (rng.choice(T), rng.choice(T), rng.choice(E)), [], [])); kinds.append("T")
        elif r < 0.68:
            ops.append(("T", (rng.choice(T),), "mask", [])); kinds.append("T")
        elif r < 0.75:
            ops.append(("D", (rng.choice(T),), "mask", [])); kinds.append("T")
        elif r < 0.80:
            ops.append(("U", (rng.choice(E), rng.choice(E)), [], [])); kinds.append("E")
        elif r < 0.85:
            ops.append(("I", (rng.choice(E), rng.choice(E)), [], [])); kinds.append("E")
        elif r < 0.90:
            ops.append(("F", (rng.choice(E), rng.choice(E)), [], [])); kinds.append("E")
        elif r < 0.93:
            ops.append(("TS", (rng.choice(E),), [], [])); kinds.append("E")
        elif r < 0.97:
            ops.append(("DS", (rng.choice(E), lat(rng.choice([1, 2, 4]))), [], [])); kinds.append("E")
        else:
            ops.append(("MC", (rng.choice(E), lat(rng.choice([1, 2, 4]))), [], [])); kinds.append("E")
    return ops


def apply_real(R, op, rng, hook=None):
    """executes one modelled op on the implementation; returns (real object, model code string)"""
    nap = R.nap
    k, a, l1, l2 = op
    code = None
    if k == "MT":
        t = G.arr(l1)
        o = nap.Tsd(t, np.arange(len(l1), dtype=float) + 1)
        code = "MT : " + C.fmt_ints(l1)
    elif k == "MS":
        o = nap.Tsd(G.arr(l1), np.arange(len(l1), dtype=float) + 1, time_support=R.ep_of(a[0]))
        code = "MS %d : %s" % (a[0], C.fmt_ints(l1))
    elif k == "ME":
        o = nap.IntervalSet(G.arr(l1), G.arr(l2))
        code = "ME : %s : %s" % (C.fmt_ints(l1), C.fmt_ints(l2))
    elif k == "SU":
        o = R.ts_of(a[0]).time_support
        code = "SU %d" % a[0]
    elif k == "R":
        o = R.ts_of(a[0]).restrict(R.ep_of(a[1]))
        code = "R %d %d" % a
    elif k == "G":
        x = R.ts_of(a[0])
        o = x.get(a[1] / 1e9, a[2] / 1e9)
        code = "G %d %d %d" % a
    elif k == "C":
        x, ep = R.ts_of(a[0]), R.ep_of(a[1])
        o = x.count(2 * a[2] / 1e9, ep)
        code = "C %d %d %d" % a
    elif k == "V":
        o = R.ts_of(a[0]).value_from(R.ts_of(a[1]), R.ep_of(a[2]))
        code = "V %d %d %d" % a
    elif k in ("T", "D"):
        x = R.ts_of(a[0])
        n = len(x)
        mask = [rng.randint(0, 1) for _ in range(n)]
        if k == "T":
            y = nap.Tsd(np.asarray(x.t), np.asarray(mask, dtype=float), time_support=x.time_support)
            o = y.threshold(0.5) if n else y
        else:
            y = nap.Tsd(np.asarray(x.t), np.asarray([1.0 if m else np.nan for m in mask]), time_support=x.time_support)
            o = y.dropna() if n else y
        code = "%s %d : %s" % (k, a[0], C.fmt_ints(mask))
    elif k == "U":
        o = R.ep_of(a[0]).union(R.ep_of(a[1])); code = "U %d %d" % a
    elif k == "I":
        o = R.ep_of(a[0]).intersect(R.ep_of(a[1])); code = "I %d %d" % a
    elif k == "F":
        o = R.ep_of(a[0]).set_diff(R.ep_of(a[1])); code = "F %d %d" % a
    elif k == "TS":
        e = R.ep_of(a[0])
        o = e.time_span() if len(e) else e
        code = "TS %d" % a[0]
    elif k == "DS":
        o = R.ep_of(a[0]).drop_short_intervals(a[1] / 1e9); code = "DS %d %d" % a
    elif k == "MC":
        o = R.ep_of(a[0]).merge_close_intervals(a[1] / 1e9); code = "MC %d %d" % a
    else:
        raise ValueError(k)
    return o, code


UNMODELLED = ["make_group", "make_group", "bin_average", "interpolate", "convolve", "smooth", "numpy_ufunc", "numpy_func", "concatenate", "split_concat", "to_tsgroup_to_tsd",
              "tsgroup_restrict", "tsgroup_getby", "merge_group", "shift", "jitter", "resample", "shuffle", "perievent", "slice_index", "mask_index",
              "tsdframe_cols", "find_support", "ep_split", "in_interval", "trial_count", "frame_bin_average", "raw_support", "raw_support"]


def apply_unmodelled(R, name, rng):
    """runs one unmodelled operation on objects of the real store; returns a list of result objects (possibly empty)"""
    nap = R.nap
    series = [o for o in R.objs + R.extra if isinstance(o, (nap.Tsd, nap.Ts)) and len(o) >= 2 and len(o.time_support)]
    eps = [o for o in R.objs + R.extra if isinstance(o, nap.IntervalSet) and len(o)]
    if not series:
        return []
    x = rng.choice(series)
    ep = rng.choice(eps) if eps else x.time_support
    xd = x if isinstance(x, nap.Tsd) else nap.Tsd(np.asarray(x.t), np.arange(len(x), dtype=float), time_support=x.time_support)
    b = (rng.choice([1, 2, 3]) * 2 * U2) / 1e9
    if name == "raw_support":
        # a support given as RAW start/end arrays (overlapping, touching, chained so that a merged end meets the next start):
        # the constructor must normalise it before it reaches a series
        import warnings as _w
        lo = int(round(float(x.t[0]) * 1e9)) // U2
        pts = sorted(rng.sample(range(lo - 2, lo + 14), rng.choice([4, 5, 6])))
        k = rng.choice([3, 4])
        st = [pts[0]]
        en = []
        for i in range(k):
            e = st[-1] + rng.choice([1, 2, 3])
            en.append(e)
            st.append(rng.choice([e - 1, e - 1, e, e, e + 1]) if e - 1 > st[-1] else e)
        st = st[:k]
        with _w.catch_warnings():
            _w.simplefilter("ignore")
            raw = nap.IntervalSet(start=np.array(st) * U2 / 1e9, end=np.array(en) * U2 / 1e9)
            return [raw, x.restrict(raw), nap.Ts(np.asarray(x.t), time_support=raw), xd.restrict(raw).count(b)]
    if name == "bin_average":
        return [xd.bin_average(b, ep)]
    if name == "frame_bin_average":
        fr = nap.TsdFrame(np.asarray(xd.t), np.stack([xd.values, xd.values * 2], 1), time_support=xd.time_support, columns=["a", "b"])
        return [fr, fr.bin_average(b, ep), fr.restrict(ep)]
    if name == "interpolate":
        y = rng.choice(series)
        return [xd.interpolate(y, ep)]
    if name == "convolve":
        return [xd.convolve(np.array([1.0, 2.0, 1.0])), xd.convolve(np.array([1.0, 1.0]), ep=ep, trim="left")]
    if name == "smooth":
        return [xd.smooth(3 * U2 / 1e9, size_factor=4)]
    if name == "numpy_ufunc":
        return [xd * 2 + 1, np.abs(xd), xd > 3]
    if name == "numpy_func":
        return [np.cumsum(xd), np.flip(xd), np.clip(xd, 1, 5)]
    if name == "concatenate":
        lo = xd.get(float(xd.t[0]), float(xd.t[len(xd) // 2 - 1])) if len(xd) >= 4 else None
        hi = xd.get(float(xd.t[len(xd) // 2]), float(xd.t[-1])) if len(xd) >= 4 else None
        if lo is None or not len(lo) or not len(hi):
            return []
        return [np.concatenate((lo, hi))]
    if name == "split_concat":
        if len(xd) < 4:
            return []
        return list(np.array_split(xd, 2))
    if name == "to_tsgroup_to_tsd":
        lab = nap.Tsd(np.asarray(xd.t), (np.arange(len(xd)) % 3).astype(float), time_support=xd.time_support)
        g = lab.to_tsgroup()
        return [g, g.to_tsd()]
    if name == "make_group":
        y = rng.choice(series)
        sup = x.time_support.union(y.time_support)
        keys = rng.sample([0, 1, 3, 4, 7, 9], 3)
        g = nap.TsGroup({keys[0]: nap.Ts(np.asarray(x.t)), keys[1]: nap.Ts(np.asarray(y.t)), keys[2]: nap.Ts(np.asarray(x.t)[::2])}, time_support=sup,
                        metadata={"lab": [int(k) * 10 for k in sorted(keys)]})
        return [g]
    if name in ("tsgroup_restrict", "tsgroup_getby", "merge_group", "trial_count"):
        groups = [o for o in R.objs + R.extra if isinstance(o, nap.TsGroup) and len(o) >= 2]
        if not groups:
            return []
        g = rng.choice(groups)   # a LIVE group: snapshots taken around the call cover it
        if name == "tsgroup_restrict":
            return [g.restrict(ep), g[list(g.keys())[:2]]]
        if name == "tsgroup_getby":
            return [g.getby_threshold("rate", float(np.median(g.rate)), ">="), g[g.rate > 0]]
        if name == "trial_count":
            g.trial_count(ep, b)
            return [g.count(b, ep)]
        others = [h for h in groups if h is not g and not (set(h.keys()) & set(g.keys())) and np.array_equal(h.time_support.values, g.time_support.values)]
        outs = [nap.TsGroup.merge_group(g, g, reset_index=True), nap.TsGroup.merge_group(g, g, reset_index=True, ignore_metadata=True)]
        if others:
            h = rng.choice(others)
            outs += [nap.TsGroup.merge_group(g, h), nap.TsGroup.merge_group(h, g, reset_index=True, ignore_metadata=True)]
        # groups with DIFFERENT supports: every combination of the flags (members must end up on the union support)
        diff = [h for h in groups if h is not g and not np.array_equal(h.time_support.values, g.time_support.values)]
        if diff:
            h = rng.choice(diff)
            disjoint = not (set(h.keys()) & set(g.keys()))
            for ri in (False, True):
                if not ri and not disjoint:
                    continue
                for im in (False, True):
                    if not im and list(g.metadata_columns) != list(h.metadata_columns):
                        continue
                    outs.append(nap.TsGroup.merge_group(g, h, reset_index=ri, reset_time_support=True, ignore_metadata=im))
        return outs
    if name in ("shift", "jitter", "resample", "shuffle"):
        one = nap.IntervalSet(x.time_support.start[0], x.time_support.end[-1])
        ts1 = nap.Ts(np.asarray(x.t), time_support=one)
        st = np.random.get_state()
        np.random.seed(rng.randrange(2**31))
        try:
            if name == "shift":
                return [nap.shift_timestamps(ts1, 0.0, float(one.tot_length()) / 2)]
            if name == "jitter":
                return [nap.jitter_timestamps(ts1, max_jitter=U2 / 1e9), nap.jitter_timestamps(ts1, max_jitter=U2 / 1e9, keep_tsupport=True)]
            if name == "resample":
                return [nap.resample_timestamps(ts1)]
            return [nap.shuffle_ts_intervals(ts1)]
        finally:
            np.random.set_state(st)
    if name == "perievent":
        ref = nap.Ts(np.asarray(x.t)[::2], time_support=x.time_support)
        pe = nap.compute_perievent(xd, ref, minmax=(-2 * U2 / 1e9, 2 * U2 / 1e9))
        return [pe]
    if name == "slice_index":
        fr = nap.TsdFrame(np.asarray(xd.t), np.stack([xd.values, xd.values * 2], 1), time_support=xd.time_support, columns=["a", "b"])
        idx = list(range(len(xd)))
        rng.shuffle(idx)
        return [xd[1:], xd[::2], xd[0:0], xd[::-1], xd[idx[:3]], fr[::-1], fr[idx[:3]], np.abs(xd[::-1]), xd[idx].get(float(xd.t[0]), float(xd.t[-1]))]
    if name == "mask_index":
        m = np.arange(len(xd)) % 2 == 0
        return [xd[m]]
    if name == "tsdframe_cols":
        fr = nap.TsdFrame(np.asarray(xd.t), np.stack([xd.values, xd.values * 2, xd.values * 3], 1), time_support=xd.time_support, columns=["a", "b", "c"])
        return [fr[["c", "a"]], fr.loc["b"], fr[:, 1:]]
    if name == "find_support":
        return [x.find_support(2 * U2 / 1e9)]
    if name == "ep_split":
        return [ep.split(2 * U2 / 1e9)]
    if name == "in_interval":
        return [ep.in_interval(x)]
    return []


def run_history(nap, seed, hid, length, n_unmodelled, with_snapshots=False):
    """executes one history. returns dict(model_codes, real_abstract, wf_failures, snapshot_failures, ops, exceptions)"""
    rng = random.Random(seed * 1000003 + hid)
    ops = gen_history(rng, length)
    R = Real(nap)
    codes, abstracts, wf_fail, snap_fail, exc, unm_done = [], [], [], [], [], []
    live_snaps = []

    def guard(label, f):
        before = [snapshot(nap, o) for o in R.objs + R.extra] if with_snapshots else None
        try:
            res = f()
        except Exception as ex:  # an exception on valid inputs is reported by the caller
            exc.append((label, type(ex).__name__ + ": " + str(ex)[:200]))
            res = None
        if with_snapshots:
            after = [snapshot(nap, o) for o in (R.objs + R.extra)[: len(before)]]
            for i, (b_, a_) in enumerate(zip(before, after)):
                if not snap_equal(b_, a_):
                    snap_fail.append((label, i))
        return res

    for step, op in enumerate(ops):
        r = guard("op%d:%s" % (step, op[0]), lambda: apply_real(R, op, rng))
        if r is None:
            break
        o, code = r
        R.objs.append(o)
        codes.append(code)
        abstracts.append(norm_abs(abstract(nap, o)))
        w = wf_oracle(nap, o)
        if w:
            wf_fail.append(("op%d:%s" % (step, op[0]), w, code))
        # interleave unmodelled operations
        if n_unmodelled and step >= 2 and rng.random() < n_unmodelled:
            name = rng.choice(UNMODELLED)
            outs = guard("unmodelled:" + name, lambda: apply_unmodelled(R, name, rng))
            unm_done.append(name)
            for y in outs or []:
                if isinstance(y, (nap.Ts, nap.Tsd, nap.TsdFrame, nap.TsdTensor, nap.TsGroup, nap.IntervalSet)):
                    R.extra.append(y)
                    w = wf_oracle(nap, y)
                    if w:
                        wf_fail.append(("unmodelled:" + name, w, None))
    return {"codes": codes, "abstracts": abstracts, "wf": wf_fail, "snap": snap_fail, "exc": exc, "ops": ops, "unmodelled": unm_done}
