"""Histories of public operations over a store of live objects (DESIGN.md 3.4, tier W), shared by C04 and C10.
A history is a list of operations; each appends its result to the store.  The MODELLED operations have the
same encoding as `op` of coq/Model/Store.v and are also run by the extracted model; the UNMODELLED ones are run
on the implementation only (oracles still apply).  Times are ticks; the lattice step is 2*U (even ticks on the
dyadic lattice 2^-8 s) so that threshold midpoints are whole ticks and exact in float."""
import copy
import random
import warnings

import numpy as np

import common as C
import gen as G

U2 = 2 * 1953125
NPT = 24


def lat(k):
    return k * U2


class Real:
    """the implementation side of the store"""

    def __init__(self, nap):
        self.nap = nap
        self.objs = []      # aligned with the model's store
        self.extra = []     # results of unmodelled operations

    def ep_of(self, i):
        o = self.objs[i] if i < len(self.objs) else self.nap.IntervalSet([], [])
        return o if isinstance(o, self.nap.IntervalSet) else o.time_support

    def ts_of(self, i):
        o = self.objs[i] if i < len(self.objs) else None
        if o is None or isinstance(o, self.nap.IntervalSet):
            return self.nap.Tsd(np.array([]), np.array([]))
        return o


def abstract(nap, o):
    if isinstance(o, nap.IntervalSet):
        return "E " + " ".join("%d %d" % (C.to_ns(s), C.to_ns(e)) for s, e in o.values)
    return "T " + " ".join(str(C.to_ns(x)) for x in o.t) + " / " + " ".join("%d %d" % (C.to_ns(s), C.to_ns(e)) for s, e in o.time_support.values)


def norm_abs(s):
    return " ".join(s.split())


def wf_check(nap, o):
    """the statement of C04 on one real object: None, or (clause, description, zero_span) where clause names the clause of the
    statement that fails (canonical_support, sorted, one_row_per_timestamp, inside_support, rate, group_support) and zero_span tells
    that the object is a non-empty series whose timestamps all coincide and whose support is EMPTY (the default support
    IntervalSet(t0, t0) of a series built without time_support)"""
    if isinstance(o, nap.IntervalSet):
        v = np.asarray(o.values)
        if not (all(v[i, 0] < v[i, 1] for i in range(len(v))) and all(v[i, 1] < v[i + 1, 0] for i in range(len(v) - 1))):
            return ("canonical_support", "IntervalSet not canonical", False)
        return None
    if isinstance(o, nap.TsGroup):
        sup = np.asarray(o.time_support.values)
        keys = list(o.keys())       # (their order is C12's clause, not C04's)
        for k in keys:
            m = o[k]
            r = wf_check(nap, m)
            if r:
                return (r[0], "member %s: %s" % (k, r[1]), r[2])
            if len(m) and not np.array_equal(np.asarray(m.time_support.values), sup):
                return ("group_support", "non-empty member %s does not carry the group's time support" % k, False)
        r = wf_check(nap, o.time_support)
        return ("canonical_support", "group support: " + r[1], False) if r else None
    t = np.asarray(o.t)
    if len(t) > 1 and not np.all(np.diff(t) >= 0):
        return ("sorted", "timestamps not sorted", False)
    if hasattr(o, "values") and len(o.values) != len(t):
        return ("one_row_per_timestamp", "number of data rows differs from number of timestamps", False)
    sup = np.asarray(o.time_support.values)
    r = wf_check(nap, o.time_support)
    if r:
        return ("canonical_support", "support: " + r[1], False)
    zero_span = bool(len(t) and len(sup) == 0 and float(t[0]) == float(t[-1]))
    for x in t:
        if not any(s <= x <= e for s, e in sup):
            if zero_span:
                return ("inside_support", "zero-span series (all timestamps equal) built without a time support: its default support IntervalSet(t0, t0) is empty, so its samples "
                        "lie outside it (and its rate is n / 0)", True)
            return ("inside_support", "timestamp %r outside the time support" % float(x), False)
    if len(t):
        tot = np.sum(sup[:, 1] - sup[:, 0])
        if not (o.rate == len(t) / tot):
            return ("rate", "rate %r != n / total support duration %r" % (float(o.rate), float(len(t) / tot)), False)
    return None


def wf_oracle(nap, o):
    """the statement of C04 on one real object; returns None or a description"""
    r = wf_check(nap, o)
    return r[1] if r else None


def snapshot(nap, o):
    if isinstance(o, nap.IntervalSet):
        return ("E", np.array(o.values, copy=True), o.metadata.copy(deep=True))
    if isinstance(o, nap.TsGroup):
        return ("G", tuple(o.keys()), tuple(snapshot(nap, o[k]) for k in o.keys()), np.array(o.time_support.values, copy=True), o.metadata.copy(deep=True))
    vals = np.array(o.values, copy=True) if hasattr(o, "values") else None
    cols = tuple(o.columns) if hasattr(o, "columns") else None
    meta = o.metadata.copy(deep=True) if hasattr(o, "metadata") and isinstance(o, nap.TsdFrame) else None
    return ("T", np.array(o.t, copy=True), vals, np.array(o.time_support.values, copy=True), cols, meta)


def snap_equal(a, b):
    if type(a) is not type(b):
        return False
    if isinstance(a, tuple):
        return len(a) == len(b) and all(snap_equal(x, y) for x, y in zip(a, b))
    if isinstance(a, np.ndarray):
        return a.shape == b.shape and np.array_equal(a, b, equal_nan=True) if a.dtype.kind == "f" else (a.shape == b.shape and np.array_equal(a, b))
    if hasattr(a, "equals"):
        return a.equals(b)
    return a == b


# ------------------------------------------------------------------------------------------------------
# generation
def gen_history(rng, length):
    """returns list of (code string for the model, python closure spec)"""
    ops = []
    kinds = []  # 'T' or 'E' per store slot
    def ts_slots():
        return [i for i, k in enumerate(kinds) if k == "T"]
    def ep_slots():
        return [i for i, k in enumerate(kinds) if k == "E"]
    # starting objects: two series with positive span, one interval set
    for _ in range(2):
        n = rng.randint(2, 9)
        t = sorted(rng.sample(range(NPT), n))
        if rng.random() < 0.3:
            rng.shuffle(t)
        ops.append(("MT", (), [lat(x) for x in t], []))
        kinds.append("T")
    while len(ops) < length:
        r = rng.random()
        T, E = ts_slots(), ep_slots()
        if r < 0.12 or not E:
            m = rng.randint(0, 3)
            pts = sorted(rng.sample(range(NPT), 2 * m))
            ss, es = [lat(x) for x in pts[0::2]], [lat(x) for x in pts[1::2]]
            if rng.random() < 0.3 and m >= 2:      # malformed: overlapping / touching / unsorted
                es[0] = ss[1] if rng.random() < 0.5 else es[1]
            ops.append(("ME", (), ss, es)); kinds.append("E")
        elif r < 0.17:
            n = rng.randint(0, 8)
            ops.append(("MS", (rng.choice(E),), [lat(x) for x in sorted(rng.choices(range(NPT), k=n))], [])); kinds.append("T")
        elif r < 0.24:
            ops.append(("SU", (rng.choice(T),), [], [])); kinds.append("E")
        elif r < 0.36:
            ops.append(("R", (rng.choice(T), rng.choice(E)), [], [])); kinds.append("T")
        elif r < 0.44:
            a, b = sorted(rng.choices(range(-1, NPT + 1), k=2))
            ops.append(("G", (rng.choice(T), lat(a), lat(b)), [], [])); kinds.append("T")
        elif r < 0.52:
            ops.append(("C", (rng.choice(T), rng.choice(E), lat(rng.choice([1, 2, 3]))), [], [])); kinds.append("T")
        elif r < 0.58:
            ops.append(("V", (rng.choice(T), rng.choice(T), rng.choice(E)), [], [])); kinds.append("T")
        elif r < 0.68:
            ops.append(("T", (rng.choice(T),), "mask", [])); kinds.append("T")
        elif r < 0.75:
            ops.append(("D", (rng.choice(T),), "mask", [])); kinds.append("T")
        elif r < 0.80:
            ops.append(("U", (rng.choice(E), rng.choice(E)), [], [])); kinds.append("E")
        elif r < 0.85:
            ops.append(("I", (rng.choice(E), rng.choice(E)), [], [])); kinds.append("E")
        elif r < 0.90:
            ops.append(("F", (rng.choice(E), rng.choice(E)), [], [])); kinds.append("E")
        elif r < 0.93:
            ops.append(("TS", (rng.choice(E),), [], [])); kinds.append("E")
        elif r < 0.97:
            ops.append(("DS", (rng.choice(E), lat(rng.choice([1, 2, 4]))), [], [])); kinds.append("E")
        else:
            ops.append(("MC", (rng.choice(E), lat(rng.choice([1, 2, 4]))), [], [])); kinds.append("E")
    return ops


def apply_real(R, op, rng, hook=None):
    """executes one modelled op on the implementation; returns (real object, model code string)"""
    nap = R.nap
    k, a, l1, l2 = op
    code = None
    if k == "MT":
        t = G.arr(l1)
        o = nap.Tsd(t, np.arange(len(l1), dtype=float) + 1)
        code = "MT : " + C.fmt_ints(l1)
    elif k == "MS":
        o = nap.Tsd(G.arr(l1), np.arange(len(l1), dtype=float) + 1, time_support=R.ep_of(a[0]))
        code = "MS %d : %s" % (a[0], C.fmt_ints(l1))
    elif k == "ME":
        o = nap.IntervalSet(G.arr(l1), G.arr(l2))
        code = "ME : %s : %s" % (C.fmt_ints(l1), C.fmt_ints(l2))
    elif k == "SU":
        o = R.ts_of(a[0]).time_support
        code = "SU %d" % a[0]
    elif k == "R":
        o = R.ts_of(a[0]).restrict(R.ep_of(a[1]))
        code = "R %d %d" % a
    elif k == "G":
        x = R.ts_of(a[0])
        o = x.get(a[1] / 1e9, a[2] / 1e9)
        code = "G %d %d %d" % a
    elif k == "C":
        x, ep = R.ts_of(a[0]), R.ep_of(a[1])
        o = x.count(2 * a[2] / 1e9, ep)
        code = "C %d %d %d" % a
    elif k == "V":
        o = R.ts_of(a[0]).value_from(R.ts_of(a[1]), R.ep_of(a[2]))
        code = "V %d %d %d" % a
    elif k in ("T", "D"):
        x = R.ts_of(a[0])
        n = len(x)
        mask = [rng.randint(0, 1) for _ in range(n)]
        if k == "T":
            y = nap.Tsd(np.asarray(x.t), np.asarray(mask, dtype=float), time_support=x.time_support)
            o = y.threshold(0.5)
        else:
            y = nap.Tsd(np.asarray(x.t), np.asarray([1.0 if m else np.nan for m in mask]), time_support=x.time_support)
            o = y.dropna()
        code = "%s %d : %s" % (k, a[0], C.fmt_ints(mask))
    elif k == "U":
        o = R.ep_of(a[0]).union(R.ep_of(a[1])); code = "U %d %d" % a
    elif k == "I":
        o = R.ep_of(a[0]).intersect(R.ep_of(a[1])); code = "I %d %d" % a
    elif k == "F":
        o = R.ep_of(a[0]).set_diff(R.ep_of(a[1])); code = "F %d %d" % a
    elif k == "TS":
        e = R.ep_of(a[0])
        # IntervalSet([], []).time_span() raises IndexError (no object is produced: outside C04's statement); the model returns the empty set.
        # The call is not made; run_history counts these steps (skipped_time_span_of_empty_set)
        o = e.time_span() if len(e) else e
        code = "TS %d" % a[0]
    elif k == "DS":
        o = R.ep_of(a[0]).drop_short_intervals(a[1] / 1e9); code = "DS %d %d" % a
    elif k == "MC":
        o = R.ep_of(a[0]).merge_close_intervals(a[1] / 1e9); code = "MC %d %d" % a
    else:
        raise ValueError(k)
    return o, code


UNMODELLED = ["as_class", "core_any_class", "dropna_threshold", "make_group", "make_group", "bin_average", "interpolate", "convolve", "smooth", "numpy_ufunc", "numpy_func", "numpy_shape",
              "concatenate", "split_concat", "to_tsgroup_to_tsd", "tsgroup_restrict", "tsgroup_getby", "merge_group", "shift", "jitter", "resample", "shuffle", "randomize_group",
              "perievent", "slice_index", "mask_index", "tsdframe_cols", "find_support", "ep_split", "in_interval", "trial_count", "frame_bin_average", "raw_support", "raw_support",
              "off_lattice"]

CLASSES = ("Ts", "Tsd", "TsdFrame", "TsdTensor")


def class_name(nap, o):
    for c in ("TsdTensor", "TsdFrame", "Tsd", "Ts", "TsGroup", "IntervalSet"):
        if isinstance(o, getattr(nap, c)):
            return c
    return type(o).__name__


def as_class(nap, x, cls, sup=None):
    """x's timestamps under another of the four classes, through the public constructor (values are fresh), with x's support or the
    given one (the constructor then drops the samples outside it)"""
    t = np.asarray(x.t)
    n = len(t)
    sup = x.time_support if sup is None else sup
    if cls == "Ts":
        return nap.Ts(t, time_support=sup)
    if cls == "Tsd":
        return nap.Tsd(t, np.arange(n, dtype=float) + 1, time_support=sup)
    if cls == "TsdFrame":
        v = np.arange(n, dtype=float) + 1
        return nap.TsdFrame(t, np.stack([v, v * 2, v * 3], 1), time_support=sup, columns=["a", "b", "c"])
    return nap.TsdTensor(t, (np.arange(n * 4, dtype=float) + 1).reshape(n, 2, 2), time_support=sup)


def pick_series(R, rng):
    """ANY series of the store: all four classes, empty, one-sample, duplicate-timestamp and support-less ones included.
    The draws are spread over series with >= 2 samples, series with <= 1 sample, series with duplicate timestamps, and the whole store."""
    nap = R.nap
    pool = [o for o in R.objs + R.extra if isinstance(o, (nap.Ts, nap.Tsd, nap.TsdFrame, nap.TsdTensor))]
    if not pool:
        return None
    r = rng.random()
    big = [o for o in pool if len(o) >= 2]
    if big and r < 0.45:
        return rng.choice(big)
    small = [o for o in pool if len(o) <= 1]
    if small and r < 0.62:
        return rng.choice(small)
    dup = [o for o in big if np.any(np.diff(np.asarray(o.t)) == 0)]
    if dup and r < 0.72:
        return rng.choice(dup)
    return rng.choice(pool)


def unmodelled_calls(R, name, rng, info=None):
    """one unmodelled operation on objects of the real store: returns a list of (sub-operation label, thunk); every thunk is one public
    call (or a short chain) whose result - an object, or a list / dict of objects - is checked and fed to later operations.
    `info` (a dict) receives the class and size class of the input that was drawn."""
    nap = R.nap
    x = pick_series(R, rng)
    if x is None:
        return []
    y = pick_series(R, rng)
    eps = [o for o in R.objs + R.extra if isinstance(o, nap.IntervalSet)]
    ep = rng.choice(eps) if eps and rng.random() < 0.85 else x.time_support      # possibly empty
    # the input under a class drawn at random (a stored TsdFrame / TsdTensor / Ts is used as it is half of the time)
    cls = class_name(nap, x)
    if rng.random() < 0.5:
        cls = rng.choice(CLASSES)
        X = x if cls == class_name(nap, x) else as_class(nap, x, cls)
    else:
        X = x
    XD = X if cls != "Ts" else as_class(nap, X, "Tsd")       # a data-carrying version
    xd = X if cls == "Tsd" else as_class(nap, X, "Tsd")      # a 1-d version
    xts = X if cls == "Ts" else as_class(nap, X, "Ts")
    yd = y if isinstance(y, nap.Tsd) else as_class(nap, y, "Tsd")
    n = len(X)
    if info is not None:
        info.update({"cls": cls, "len": "0" if n == 0 else "1" if n == 1 else "2+", "support": "empty" if len(X.time_support) == 0 else "1" if len(X.time_support) == 1 else "2+",
                     "dup": bool(n >= 2 and np.any(np.diff(np.asarray(X.t)) == 0)), "zero_span_input": bool(n >= 1 and float(X.t[0]) == float(X.t[-1]))})
    b = (rng.choice([1, 2, 3]) * 2 * U2) / 1e9
    t0 = float(X.t[0]) if n else 0.0
    t1 = float(X.t[-1]) if n else 10 * U2 / 1e9
    out = []

    def add(sub, f):
        out.append((sub, f))

    if name == "as_class":
        for c in CLASSES:
            add("as_" + c, lambda c=c: as_class(nap, x, c))
        # the public constructors WITHOUT a support (default support = [first, last]) in the three time units (seed C04-6: the default support built
        # in the caller's unit) and from the other accepted forms of t (a TsIndex, a list, a pandas Series with the times as index)
        tx = np.asarray(x.t)
        dx = np.arange(len(tx), dtype=float) + 1
        if len(tx) and tx[0] == tx[-1]:
            return out          # a series built from one instant has no positive duration: outside C04's hypothesis on starting objects (zero-span quirk, DESIGN 10.4)
        for u, f in (("s", 1.0), ("ms", 1e3), ("us", 1e6)):
            add("ctor_default_support_Ts_" + u, lambda u=u, f=f: nap.Ts(tx * f, time_units=u))
            add("ctor_default_support_Tsd_" + u, lambda u=u, f=f: nap.Tsd(tx * f, dx.copy(), time_units=u))      # (a fresh data array per object: the constructors keep the caller's array)
        add("ctor_default_support_TsdFrame_ms", lambda: nap.TsdFrame(tx * 1e3, np.stack([dx, dx * 2], 1), time_units="ms"))
        add("ctor_default_support_TsdTensor_us", lambda: nap.TsdTensor(tx * 1e6, np.stack([dx, dx * 2], 1).reshape(len(tx), 2, 1), time_units="us"))
        add("ctor_from_TsIndex", lambda: nap.Tsd(x.index, dx.copy(), time_support=x.time_support))
        add("ctor_from_list", lambda: nap.Ts([float(v) for v in tx]))
        return out
    if name == "core_any_class":
        # the modelled operations, on all four classes and on degenerate inputs
        a_, b_ = sorted(rng.choices(range(-1, NPT + 1), k=2))
        add("restrict", lambda: X.restrict(ep))
        add("get_window", lambda: X.get(lat(a_) / 1e9, lat(b_) / 1e9))
        add("get_point_window", lambda: X.get(t0, t0))
        add("get_nearest", lambda: X.get(lat(a_) / 1e9))
        add("count_ep", lambda: X.count(b, ep))
        add("count", lambda: X.count(b))
        add("count_nobin", lambda: X.count(ep=ep))
        add("value_from_ep", lambda: X.value_from(yd, ep))
        add("value_from", lambda: X.value_from(yd))
        add("copy", lambda: X.copy())
        add("support", lambda: X.time_support)
        add("time_support_ctor", lambda: as_class(nap, X.restrict(ep), cls))
        add("ctor_dropping_samples_outside", lambda: as_class(nap, X, cls, ep))
        return out
    if name == "dropna_threshold":
        if cls == "Ts":
            add("fillna", lambda: X.fillna(2.0))
            return out
        v = np.array(XD.values, dtype=float, copy=True)
        m = np.array([rng.random() < 0.4 for _ in range(n)], dtype=bool)
        v[m] = np.nan
        XN = XD.__class__(np.asarray(XD.t), v, time_support=XD.time_support)
        add("with_nan", lambda: XN)
        add("dropna", lambda: XN.dropna())
        add("dropna_keep_support", lambda: XN.dropna(update_time_support=False))
        thr = float(np.median(xd.values)) if n else 0.5
        add("threshold_above", lambda: xd.threshold(thr))
        add("threshold_below", lambda: xd.threshold(thr, "below"))
        add("threshold_aboveequal", lambda: xd.threshold(thr, "aboveequal"))
        return out
    if name == "raw_support":
        # a support given as RAW start/end arrays (overlapping, touching, chained so that a merged end meets the next start):
        # the constructor must normalise it before it reaches a series
        lo = int(round(t0 * 1e9)) // U2
        pts = sorted(rng.sample(range(lo - 2, lo + 14), rng.choice([4, 5, 6])))
        k = rng.choice([3, 4])
        st = [pts[0]]
        en = []
        for i in range(k):
            e = st[-1] + rng.choice([1, 2, 3])
            en.append(e)
            st.append(rng.choice([e - 1, e - 1, e, e, e + 1]) if e - 1 > st[-1] else e)
        st = st[:k]
        with warnings.catch_warnings():
            warnings.simplefilter("ignore")
            raw = nap.IntervalSet(start=np.array(st) * U2 / 1e9, end=np.array(en) * U2 / 1e9)
        add("ctor", lambda: raw)
        add("restrict", lambda: X.restrict(raw))
        add("as_time_support", lambda: as_class(nap, X, cls, raw))
        add("ts_as_time_support", lambda: nap.Ts(np.asarray(X.t), time_support=raw))
        add("restrict_count", lambda: X.restrict(raw).count(b))
        return out
    if name == "bin_average":
        if cls == "Ts":
            return out
        add("ep", lambda: X.bin_average(b, ep))
        add("own_support", lambda: X.bin_average(b))
        return out
    if name == "frame_bin_average":
        fr = as_class(nap, X, "TsdFrame")
        add("frame", lambda: fr)
        add("bin_average", lambda: fr.bin_average(b, ep))
        add("restrict", lambda: fr.restrict(ep))
        return out
    if name == "interpolate":
        add("ep", lambda: XD.interpolate(y, ep))
        add("own_support", lambda: XD.interpolate(y))
        return out
    if name == "convolve":
        add("full", lambda: XD.convolve(np.array([1.0, 2.0, 1.0])))
        add("ep_left", lambda: XD.convolve(np.array([1.0, 1.0]), ep=ep, trim="left"))
        add("right", lambda: XD.convolve(np.array([1.0, 1.0]), trim="right"))
        return out
    if name == "smooth":
        add("smooth", lambda: XD.smooth(3 * U2 / 1e9, size_factor=4))
        return out
    if name == "numpy_ufunc":
        add("mul_add", lambda: XD * 2 + 1)
        add("abs", lambda: np.abs(XD))
        add("greater", lambda: XD > 3)
        add("isnan", lambda: np.isnan(XD))
        return out
    if name == "numpy_func":
        add("cumsum", lambda: np.cumsum(XD, axis=0))
        add("flip", lambda: np.flip(XD, axis=0))
        add("clip", lambda: np.clip(XD, 1, 5))
        add("roll", lambda: np.roll(XD, 1, axis=0))
        add("where", lambda: np.where(XD > 1, XD, 0))
        add("nan_to_num", lambda: np.nan_to_num(XD))
        add("mean_last_axis", lambda: np.mean(XD, axis=-1) if XD.ndim > 1 else np.mean(XD))
        add("sum_keepdims", lambda: np.sum(XD, axis=0, keepdims=True))
        add("diff", lambda: np.diff(XD, axis=0))
        return out
    if name == "numpy_shape":
        add("take", lambda: np.take(XD, [0], axis=0))
        add("delete", lambda: np.delete(XD, 0, axis=0))
        add("repeat", lambda: np.repeat(XD, 2, axis=0))
        add("insert", lambda: np.insert(XD, 0, 0, axis=0))
        add("append", lambda: np.append(XD, XD))
        add("tile", lambda: np.tile(XD, 2))
        add("transpose", lambda: np.transpose(XD))
        add("squeeze", lambda: np.squeeze(XD))
        add("expand_dims", lambda: np.expand_dims(XD, -1))
        add("reshape", lambda: np.reshape(XD, (len(XD), -1)))
        if XD.ndim > 1:
            add("hstack", lambda: np.hstack((XD, XD)))
        add("pad", lambda: np.pad(XD, 1) if XD.ndim == 1 else None)
        return out
    if name == "concatenate":
        h = n // 2
        add("halves_by_slice", lambda: np.concatenate((XD[:h], XD[h:])))
        if n >= 4:
            add("halves_by_get", lambda: np.concatenate((XD.get(t0, float(X.t[h - 1])), XD.get(float(X.t[h]), t1))))
        add("with_empty", lambda: np.concatenate((XD[0:0], XD)))
        return out
    if name == "split_concat":
        add("array_split", lambda: list(np.array_split(XD, 2)))
        add("array_split3", lambda: list(np.array_split(XD, 3)))
        if n and n % 2 == 0:
            add("split", lambda: list(np.split(XD, 2)))
        return out
    if name == "to_tsgroup_to_tsd":
        lab = nap.Tsd(np.asarray(X.t), (np.arange(n) % 3).astype(float), time_support=X.time_support)
        add("to_tsgroup", lambda: lab.to_tsgroup())
        add("to_tsgroup_to_tsd", lambda: lab.to_tsgroup().to_tsd())
        add("ts_to_tsd", lambda: xts.fillna(1.0))
        return out
    if name == "make_group":
        keys = rng.sample([0, 1, 3, 4, 7, 9], 3)
        mem = {keys[0]: nap.Ts(np.asarray(x.t)), keys[1]: nap.Ts(np.asarray(y.t)), keys[2]: nap.Ts(np.asarray(x.t)[::2])}
        memsup = {keys[0]: xts, keys[1]: as_class(nap, y, "Ts"), keys[2]: xd}
        sup = x.time_support.union(y.time_support)
        meta = {"lab": [int(k) * 10 for k in sorted(keys)]}
        add("explicit_support", lambda: nap.TsGroup(mem, time_support=sup, metadata=meta))
        add("explicit_other_support", lambda: nap.TsGroup(memsup, time_support=ep))
        # the DEFAULT support (union of the members' supports); an empty union is rejected by the constructor (RuntimeError)
        add("default_support", lambda: nap.TsGroup(memsup, metadata=meta))
        add("default_support_fresh_members", lambda: nap.TsGroup(mem))
        return out
    if name in ("tsgroup_restrict", "tsgroup_getby", "merge_group", "trial_count", "randomize_group"):
        groups = [o for o in R.objs + R.extra if isinstance(o, nap.TsGroup) and len(o) >= 1]
        if not groups:
            return out
        g = rng.choice(groups)   # a LIVE group: snapshots taken around the call cover it
        if name == "tsgroup_restrict":
            add("restrict", lambda: g.restrict(ep))
            add("select_two", lambda: g[list(g.keys())[:2]])
            add("member", lambda: g[list(g.keys())[0]])
            add("get_window", lambda: g.get(t0, t1))
            return out
        if name == "tsgroup_getby":
            add("getby_threshold", lambda: g.getby_threshold("rate", float(np.nanmedian(g.rate)), ">="))
            add("bool_index", lambda: g[g.rate > 0])
            add("to_tsd", lambda: g.to_tsd())
            return out
        if name == "trial_count":
            add("trial_count", lambda: g.trial_count(ep, b))
            add("count_ep", lambda: g.count(b, ep))
            add("count", lambda: g.count(b))
            add("value_from", lambda: g.value_from(yd, ep))
            return out
        if name == "randomize_group":
            st = np.random.get_state()
            seed_ = rng.randrange(2**31)

            def rnd(f):
                def w():
                    np.random.seed(seed_)
                    try:
                        return f()
                    finally:
                        np.random.set_state(st)
                return w
            add("shift_timestamps", rnd(lambda: nap.shift_timestamps(g, 0.0, U2 / 1e9)))
            add("jitter_timestamps", rnd(lambda: nap.jitter_timestamps(g, max_jitter=U2 / 1e9)))
            add("jitter_timestamps_keep_tsupport", rnd(lambda: nap.jitter_timestamps(g, max_jitter=U2 / 1e9, keep_tsupport=True)))
            add("resample_timestamps", rnd(lambda: nap.resample_timestamps(g)))
            add("shuffle_ts_intervals", rnd(lambda: nap.shuffle_ts_intervals(g)))
            return out
        others = [h for h in groups if h is not g and not (set(h.keys()) & set(g.keys())) and np.array_equal(h.time_support.values, g.time_support.values)]
        add("self_reset_index", lambda: nap.TsGroup.merge_group(g, g, reset_index=True))
        add("self_reset_index_ignore_metadata", lambda: nap.TsGroup.merge_group(g, g, reset_index=True, ignore_metadata=True))
        if others:
            h = rng.choice(others)
            add("same_support", lambda: nap.TsGroup.merge_group(g, h))
            add("same_support_reset_index", lambda: nap.TsGroup.merge_group(h, g, reset_index=True, ignore_metadata=True))
        # groups with DIFFERENT supports: every combination of the flags (members must end up on the union support)
        diff = [h for h in groups if h is not g and not np.array_equal(h.time_support.values, g.time_support.values)]
        if diff:
            h = rng.choice(diff)
            disjoint = not (set(h.keys()) & set(g.keys()))
            for ri in (False, True):
                if not ri and not disjoint:
                    continue
                for im in (False, True):
                    if not im and list(g.metadata_columns) != list(h.metadata_columns):
                        continue
                    add("reset_time_support_ri%d_im%d" % (ri, im), lambda ri=ri, im=im: nap.TsGroup.merge_group(g, h, reset_index=ri, reset_time_support=True, ignore_metadata=im))
        return out
    if name in ("shift", "jitter", "resample", "shuffle"):
        # on the series' own (possibly multi-interval, possibly empty) support and on the single interval spanning it
        cands = [("own_support", xts)]
        if len(xts.time_support) >= 2:
            one = nap.IntervalSet(xts.time_support.start[0], xts.time_support.end[-1])
            cands.append(("single_interval", nap.Ts(np.asarray(xts.t), time_support=one)))
        st = np.random.get_state()
        seed_ = rng.randrange(2**31)

        def rnd(f):
            def w():
                np.random.seed(seed_)
                try:
                    return f()
                finally:
                    np.random.set_state(st)
            return w
        for tag, ts1 in cands:
            if name == "shift":
                half = float(ts1.time_support.tot_length()) / 2 if len(ts1.time_support) else 1.0
                add("shift_timestamps@" + tag, rnd(lambda ts1=ts1, half=half: nap.shift_timestamps(ts1, 0.0, half)))
            elif name == "jitter":
                add("jitter_timestamps@" + tag, rnd(lambda ts1=ts1: nap.jitter_timestamps(ts1, max_jitter=U2 / 1e9)))
                add("jitter_timestamps_keep_tsupport@" + tag, rnd(lambda ts1=ts1: nap.jitter_timestamps(ts1, max_jitter=U2 / 1e9, keep_tsupport=True)))
            elif name == "resample":
                add("resample_timestamps@" + tag, rnd(lambda ts1=ts1: nap.resample_timestamps(ts1)))
            else:
                add("shuffle_ts_intervals@" + tag, rnd(lambda ts1=ts1: nap.shuffle_ts_intervals(ts1)))
        return out
    if name == "perievent":
        ref = nap.Ts(np.asarray(x.t)[::2], time_support=x.time_support)
        w = 2 * U2 / 1e9
        if cls in ("Ts", "Tsd"):
            add("compute_perievent", lambda: nap.compute_perievent(X, ref, minmax=(-w, w)))
        if cls != "Ts":
            add("compute_perievent_continuous", lambda: nap.compute_perievent_continuous(X, ref, minmax=(w, w)))
            add("compute_perievent_continuous_ep", lambda: nap.compute_perievent_continuous(X, ref, minmax=(w, w), ep=ep))
        return out
    if name == "slice_index":
        idx = list(range(n))
        rng.shuffle(idx)
        add("tail", lambda: X[1:])
        add("step2", lambda: X[::2])
        add("empty_slice", lambda: X[0:0])
        add("reversed", lambda: X[::-1])
        add("int_list_shuffled", lambda: X[idx[:3]])
        add("int_list_shuffled_then_get", lambda: X[idx].get(t0, t1))
        if n:
            add("single_int", lambda: X[n - 1])
        add("one_row_slice", lambda: X[0:1])
        if cls != "Ts":
            add("abs_reversed", lambda: np.abs(X[::-1]))
        if cls == "TsdFrame":
            add("column_int", lambda: X[:, 0])
            add("column_list", lambda: X[:, [X.shape[1] - 1]])
            add("rows_and_cols", lambda: X[1:, 0:2])
        if cls == "TsdTensor":
            add("first_plane", lambda: X[:, 0])
            add("element", lambda: X[:, 0, 0])
            add("last_axis", lambda: X[:, :, 0])
            add("rows_and_planes", lambda: X[1:, 0:1])
        return out
    if name == "mask_index":
        m = np.arange(n) % 2 == 0
        add("bool_array", lambda: X[m])
        add("bool_all_false", lambda: X[np.zeros(n, dtype=bool)])
        add("bool_tsd", lambda: XD[nap.Tsd(np.asarray(X.t), m, time_support=X.time_support)])
        return out
    if name == "tsdframe_cols":
        fr = as_class(nap, X, "TsdFrame")
        add("label_list", lambda: fr[["c", "a"]])
        add("loc", lambda: fr.loc["b"])
        add("label", lambda: fr["a"])
        add("positional", lambda: fr[:, 1:])
        return out
    if name == "find_support":
        add("find_support", lambda: X.find_support(2 * U2 / 1e9))
        add("find_support_restrict", lambda: X.restrict(X.find_support(2 * U2 / 1e9)))
        return out
    if name == "ep_split":
        add("split", lambda: ep.split(2 * U2 / 1e9))
        return out
    if name == "in_interval":
        add("in_interval", lambda: ep.in_interval(X))
        return out
    if name == "off_lattice":
        # timestamps and support edges OFF the lattice: arbitrary float64 instants, edges equal to samples or 0.5 us / 1 us away from them
        m = rng.randint(0, 7)
        base = sorted(rng.uniform(0.0, 1.0) for _ in range(m))
        if m >= 2 and rng.random() < 0.3:
            base[1] = base[0]
        tt = np.array(base)
        edges = set()
        for v in base:
            edges.add(v + rng.choice([0.0, 5e-7, -5e-7, 1e-6, -1e-6, 1e-9, -1e-9]))
        while len(edges) < 6:
            edges.add(rng.uniform(-0.1, 1.1))
        ed = sorted(rng.sample(sorted(edges), 2 * rng.randint(1, 3)))
        if len(ed) >= 4 and rng.random() < 0.4:
            ed[2] = ed[1] + rng.choice([0.0, 5e-7, 1e-6, 2e-6])      # touching / closer than the 1 us separation
            ed = sorted(ed)
        with warnings.catch_warnings():
            warnings.simplefilter("ignore")
            sup = nap.IntervalSet(start=np.array(ed[0::2]), end=np.array(ed[1::2]))
        c2 = rng.choice(CLASSES)
        Z0 = as_class(nap, nap.Ts(tt), c2) if m else as_class(nap, nap.Ts(np.array([])), c2)
        add("support", lambda: sup)
        add("ctor_default_support", lambda: Z0)
        add("ctor_support", lambda: as_class(nap, nap.Ts(tt, time_support=sup), c2))
        add("restrict", lambda: Z0.restrict(sup))
        add("restrict_count", lambda: Z0.restrict(sup).count(1e-1))
        add("count_ep", lambda: Z0.count(1e-1, sup))
        add("get", lambda: Z0.get(ed[0], ed[-1]))
        add("restrict_union_own", lambda: Z0.restrict(sup.union(Z0.time_support)))
        add("restrict_intersect_own", lambda: Z0.restrict(sup.intersect(Z0.time_support)))
        add("restrict_diff", lambda: Z0.restrict(Z0.time_support.set_diff(sup)))
        if c2 != "Ts":
            add("bin_average", lambda: Z0.bin_average(1e-1, sup))
            add("concatenate_restrictions", lambda: np.concatenate([Z0.restrict(sup[i]) for i in range(len(sup))]))
            add("dropna", lambda: Z0.restrict(sup).dropna())
        else:
            add("group_default_support", lambda: nap.TsGroup({0: Z0.restrict(sup), 1: Z0}))
        return out
    return out


def flatten_outputs(nap, y):
    """the library objects held by a result (an object, or a list / tuple / dict of objects)"""
    if isinstance(y, (nap.Ts, nap.Tsd, nap.TsdFrame, nap.TsdTensor, nap.TsGroup, nap.IntervalSet)):
        return [y]
    if isinstance(y, dict):
        return [z for v in y.values() for z in flatten_outputs(nap, v)]
    if isinstance(y, (list, tuple)):
        return [z for v in y for z in flatten_outputs(nap, v)]
    return []


def run_unmodelled(R, name, rng, exc=None, info=None):
    """runs every call of one unmodelled operation; an exception of one call does not discard the results of the others.
    returns [(sub-operation label, object)]; exceptions are appended to `exc` as (label, text)"""
    outs = []
    for sub, f in unmodelled_calls(R, name, rng, info):
        try:
            y = f()
        except Exception as ex:  # no object is produced
            if exc is not None:
                exc.append(("unmodelled:%s/%s" % (name, sub), type(ex).__name__ + ": " + str(ex)[:200]))
            continue
        outs.extend((sub, z) for z in flatten_outputs(R.nap, y))
    return outs


def apply_unmodelled(R, name, rng):
    """the result objects of one unmodelled operation (interface used by C10's mutating histories)"""
    return [o for _, o in run_unmodelled(R, name, rng)]


def run_history(nap, seed, hid, length, n_unmodelled, with_snapshots=False):
    """executes one history. returns dict(model_codes, real_abstract, wf_failures, snapshot_failures, ops, exceptions)"""
    rng = random.Random(seed * 1000003 + hid)
    ops = gen_history(rng, length)
    R = Real(nap)
    codes, abstracts, wf_fail, snap_fail, exc, unm_done, unm_inputs, skipped, wf_keys = [], [], [], [], [], [], [], [], []
    n_checked = 0

    def guard(label, f):
        before = [snapshot(nap, o) for o in R.objs + R.extra] if with_snapshots else None
        try:
            res = f()
        except Exception as ex:  # an exception on valid inputs is reported by the caller
            exc.append((label, type(ex).__name__ + ": " + str(ex)[:200]))
            res = None
        if with_snapshots:
            after = [snapshot(nap, o) for o in (R.objs + R.extra)[: len(before)]]
            for i, (b_, a_) in enumerate(zip(before, after)):
                if not snap_equal(b_, a_):
                    snap_fail.append((label, i))
        return res

    for step, op in enumerate(ops):
        if op[0] == "TS" and len(R.ep_of(op[1][0])) == 0:
            skipped.append("time_span_of_empty_set")
        r = guard("op%d:%s" % (step, op[0]), lambda: apply_real(R, op, rng))
        if r is None:
            break
        o, code = r
        R.objs.append(o)
        codes.append(code)
        abstracts.append(norm_abs(abstract(nap, o)))
        w = wf_check(nap, o)
        n_checked += 1
        if w:
            wf_fail.append(("op%d:%s" % (step, op[0]), w[1], code))
            wf_keys.append({"op": op[0], "family": "modelled", "variant": None, "clause": w[0], "result": class_name(nap, o), "zero_span_default_support": w[2],
                            "zero_span_input": None})
        # interleave unmodelled operations
        if n_unmodelled and step >= 2 and rng.random() < n_unmodelled:
            name = rng.choice(UNMODELLED)
            info = {}
            outs = guard("unmodelled:" + name, lambda: run_unmodelled(R, name, rng, exc, info))
            unm_done.append(name)
            unm_inputs.append(info)
            for sub, y in outs or []:
                R.extra.append(y)
                w = wf_check(nap, y)
                n_checked += 1
                if w:
                    wf_fail.append(("unmodelled:%s/%s" % (name, sub), w[1], None))
                    wf_keys.append({"op": sub.split("@")[0], "family": name, "variant": sub.split("@")[1] if "@" in sub else None, "clause": w[0],
                                    "result": class_name(nap, y), "zero_span_default_support": w[2], "zero_span_input": info.get("zero_span_input")})
    return {"codes": codes, "abstracts": abstracts, "wf": wf_fail, "snap": snap_fail, "exc": exc, "ops": ops, "unmodelled": unm_done,
            "unmodelled_inputs": unm_inputs, "skipped": skipped, "n_checked": n_checked, "wf_keys": wf_keys}
