"""Histories of public operations over a store of live objects (DESIGN.md 3.4, tier W), shared by C04 and C10.
A history is a list of operations; each appends its result to the store.  The MODELLED operations have the
same encoding as `op` of coq/Model/Store.v and are also run by the extracted model; the UNMODELLED ones are run
on the implementation only (oracles still apply).  Times are ticks; the lattice step is 2*U (even ticks on the
dyadic lattice 2^-8 s) so that threshold midpoints are whole ticks and exact in float."""
import copy
import random
import warnings

import numpy as np

import common as C
import gen as G

U2 = 2 * 1953125
NPT = 24


def lat(k):
    return k * U2


class Real:
    """the implementation side of the store"""

    def __init__(self, nap):
        self.nap = nap
        self.objs = []      # aligned with the model's store
        self.extra = []     # results of unmodelled operations
        self.off = 0        # translation (ticks) of every instant of the history (placement axis)

    def ep_of(self, i):
        o = self.objs[i] if i < len(self.objs) else self.nap.IntervalSet([], [])
        return o if isinstance(o, self.nap.IntervalSet) else o.time_support

    def ts_of(self, i):
        o = self.objs[i] if i < len(self.objs) else None
        if o is None or isinstance(o, self.nap.IntervalSet):
            return self.nap.Tsd(np.array([]), np.array([]))
        return o


def abstract(nap, o):
    if isinstance(o, nap.IntervalSet):
        return "E " + " ".join("%d %d" % (C.to_ns(s), C.to_ns(e)) for s, e in o.values)
    return "T " + " ".join(str(C.to_ns(x)) for x in o.t) + " / " + " ".join("%d %d" % (C.to_ns(s), C.to_ns(e)) for s, e in o.time_support.values)


def norm_abs(s):
    return " ".join(s.split())


def wf_check(nap, o):
    """the statement of C04 on one real object: None, or (clause, description, zero_span) where clause names the clause of the
    statement that fails (canonical_support, sorted, one_row_per_timestamp, inside_support, rate, group_support) and zero_span tells
    that the object is a non-empty series whose timestamps all coincide and whose support is EMPTY (the default support
    IntervalSet(t0, t0) of a series built without time_support)"""
    if isinstance(o, nap.IntervalSet):
        v = np.asarray(o.values)
        if not (all(v[i, 0] < v[i, 1] for i in range(len(v))) and all(v[i, 1] < v[i + 1, 0] for i in range(len(v) - 1))):
            return ("canonical_support", "IntervalSet not canonical", False)
        return None
    if isinstance(o, nap.TsGroup):
        sup = np.asarray(o.time_support.values)
        keys = list(o.keys())       # (their order is C12's clause, not C04's)
        for k in keys:
            m = o[k]
            r = wf_check(nap, m)
            if r:
                return (r[0], "member %s: %s" % (k, r[1]), r[2])
            if len(m) and not np.array_equal(np.asarray(m.time_support.values), sup):
                return ("group_support", "non-empty member %s does not carry the group's time support" % k, False)
        r = wf_check(nap, o.time_support)
        return ("canonical_support", "group support: " + r[1], False) if r else None
    t = np.asarray(o.t)
    if len(t) > 1 and not np.all(np.diff(t) >= 0):
        return ("sorted", "timestamps not sorted", False)
    if hasattr(o, "values") and len(o.values) != len(t):
        return ("one_row_per_timestamp", "number of data rows differs from number of timestamps", False)
    sup = np.asarray(o.time_support.values)
    r = wf_check(nap, o.time_support)
    if r:
        return ("canonical_support", "support: " + r[1], False)
    zero_span = bool(len(t) and len(sup) == 0 and float(t[0]) == float(t[-1]))
    for x in t:
        if not any(s <= x <= e for s, e in sup):
            if zero_span:
                return ("inside_support", "zero-span series (all timestamps equal) built without a time support: its default support IntervalSet(t0, t0) is empty, so its samples "
                        "lie outside it (and its rate is n / 0)", True)
            return ("inside_support", "timestamp %r outside the time support" % float(x), False)
    if len(t):
        tot = np.sum(sup[:, 1] - sup[:, 0])
        if not (o.rate == len(t) / tot):
            return ("rate", "rate %r != n / total support duration %r" % (float(o.rate), float(len(t) / tot)), False)
    return None


def wf_oracle(nap, o):
    """the statement of C04 on one real object; returns None or a description"""
    r = wf_check(nap, o)
    return r[1] if r else None


def snapshot(nap, o):
    if isinstance(o, nap.IntervalSet):
        return ("E", np.array(o.values, copy=True), o.metadata.copy(deep=True))
    if isinstance(o, nap.TsGroup):
        return ("G", tuple(o.keys()), tuple(snapshot(nap, o[k]) for k in o.keys()), np.array(o.time_support.values, copy=True), o.metadata.copy(deep=True))
    vals = np.array(o.values, copy=True) if hasattr(o, "values") else None
    cols = tuple(o.columns) if hasattr(o, "columns") else None
    meta = o.metadata.copy(deep=True) if hasattr(o, "metadata") and isinstance(o, nap.TsdFrame) else None
    return ("T", np.array(o.t, copy=True), vals, np.array(o.time_support.values, copy=True), cols, meta)


def snap_equal(a, b):
    if type(a) is not type(b):
        return False
    if isinstance(a, tuple):
        return len(a) == len(b) and all(snap_equal(x, y) for x, y in zip(a, b))
    if isinstance(a, np.ndarray):
        return a.shape == b.shape and np.array_equal(a, b, equal_nan=True) if a.dtype.kind == "f" else (a.shape == b.shape and np.array_equal(a, b))
    if hasattr(a, "equals"):
        return a.equals(b)
    return a == b


# ------------------------------------------------------------------------------------------------------
# generation
def gen_history(rng, length, offset=0):
    """returns list of (code string for the model, python closure spec); `offset` (ticks, a multiple of U2) translates every instant of the
    history (placement axis: negative times, windows straddling 0, large offsets); durations are not translated"""
    ops = []

    def pos(k):
        return lat(k) + offset
    kinds = []  # 'T' or 'E' per store slot
    def ts_slots():
        return [i for i, k in enumerate(kinds) if k == "T"]
    def ep_slots():
        return [i for i, k in enumerate(kinds) if k == "E"]
    # starting objects: two series with positive span, one interval set
    for _ in range(2):
        n = rng.randint(2, 9)
        t = sorted(rng.sample(range(NPT), n))
        if rng.random() < 0.3:
            rng.shuffle(t)
        ops.append(("MT", (), [pos(x) for x in t], []))
        kinds.append("T")
    while len(ops) < length:
        r = rng.random()
        T, E = ts_slots(), ep_slots()
        if r < 0.12 or not E:
            m = rng.randint(0, 3)
            pts = sorted(rng.sample(range(NPT), 2 * m))
            ss, es = [pos(x) for x in pts[0::2]], [pos(x) for x in pts[1::2]]
            if rng.random() < 0.3 and m >= 2:      # malformed: overlapping / touching / unsorted
                es[0] = ss[1] if rng.random() < 0.5 else es[1]
            ops.append(("ME", (), ss, es)); kinds.append("E")
        elif r < 0.17:
            n = rng.randint(0, 8)
            ops.append(("MS", (rng.choice(E),), [pos(x) for x in sorted(rng.choices(range(NPT), k=n))], [])); kinds.append("T")
        elif r < 0.24:
            ops.append(("SU", (rng.choice(T),), [], [])); kinds.append("E")
        elif r < 0.36:
            ops.append(("R", (rng.choice(T), rng.choice(E)), [], [])); kinds.append("T")
        elif r < 0.44:
            a, b = sorted(rng.choices(range(-1, NPT + 1), k=2))
            ops.append(("G", (rng.choice(T), pos(a), pos(b)), [], [])); kinds.append("T")
        elif r < 0.52:
            ops.append(("C", (rng.choice(T), rng.choice(E), lat(rng.choice([1, 2, 3]))), [], [])); kinds.append("T")
        elif r < 0.58:
            ops.append(("V", (rng.choice(T), rng.choice(T), rng.choice(E)), [], [])); kinds.append("T")
        elif r < 0.68:
            ops.append(("T", (rng.choice(T),), "mask", [])); kinds.append("T")
        elif r < 0.75:
            ops.append(("D", (rng.choice(T),), "mask", [])); kinds.append("T")
        elif r < 0.80:
            ops.append(("U", (rng.choice(E), rng.choice(E)), [], [])); kinds.append("E")
        elif r < 0.85:
            ops.append(("I", (rng.choice(E), rng.choice(E)), [], [])); kinds.append("E")
        elif r < 0.90:
            ops.append(("F", (rng.choice(E), rng.choice(E)), [], [])); kinds.append("E")
        elif r < 0.93:
            ops.append(("TS", (rng.choice(E),), [], [])); kinds.append("E")
        elif r < 0.97:
            ops.append(("DS", (rng.choice(E), lat(rng.choice([1, 2, 4]))), [], [])); kinds.append("E")
        else:
            ops.append(("MC", (rng.choice(E), lat(rng.choice([1, 2, 4]))), [], [])); kinds.append("E")
    return ops


def apply_real(R, op, rng, hook=None, forms=None, stats=None):
    """executes one modelled op on the implementation; returns (real object, model code string).
    forms = a random.Random: every argument of the call is given in a drawn FORM (apply_real_forms); None = the most common form"""
    if forms is not None:
        return apply_real_forms(R, op, rng, forms, stats)
    nap = R.nap
    k, a, l1, l2 = op
    code = None
    if k == "MT":
        t = G.arr(l1)
        o = nap.Tsd(t, np.arange(len(l1), dtype=float) + 1)
        code = "MT : " + C.fmt_ints(l1)
    elif k == "MS":
        o = nap.Tsd(G.arr(l1), np.arange(len(l1), dtype=float) + 1, time_support=R.ep_of(a[0]))
        code = "MS %d : %s" % (a[0], C.fmt_ints(l1))
    elif k == "ME":
        o = nap.IntervalSet(G.arr(l1), G.arr(l2))
        code = "ME : %s : %s" % (C.fmt_ints(l1), C.fmt_ints(l2))
    elif k == "SU":
        o = R.ts_of(a[0]).time_support
        code = "SU %d" % a[0]
    elif k == "R":
        o = R.ts_of(a[0]).restrict(R.ep_of(a[1]))
        code = "R %d %d" % a
    elif k == "G":
        x = R.ts_of(a[0])
        o = x.get(a[1] / 1e9, a[2] / 1e9)
        code = "G %d %d %d" % a
    elif k == "C":
        x, ep = R.ts_of(a[0]), R.ep_of(a[1])
        o = x.count(2 * a[2] / 1e9, ep)
        code = "C %d %d %d" % a
    elif k == "V":
        o = R.ts_of(a[0]).value_from(R.ts_of(a[1]), R.ep_of(a[2]))
        code = "V %d %d %d" % a
    elif k in ("T", "D"):
        x = R.ts_of(a[0])
        n = len(x)
        mask = [rng.randint(0, 1) for _ in range(n)]
        if k == "T":
            y = nap.Tsd(np.asarray(x.t), np.asarray(mask, dtype=float), time_support=x.time_support)
            o = y.threshold(0.5)
        else:
            y = nap.Tsd(np.asarray(x.t), np.asarray([1.0 if m else np.nan for m in mask]), time_support=x.time_support)
            o = y.dropna()
        code = "%s %d : %s" % (k, a[0], C.fmt_ints(mask))
    elif k == "U":
        o = R.ep_of(a[0]).union(R.ep_of(a[1])); code = "U %d %d" % a
    elif k == "I":
        o = R.ep_of(a[0]).intersect(R.ep_of(a[1])); code = "I %d %d" % a
    elif k == "F":
        o = R.ep_of(a[0]).set_diff(R.ep_of(a[1])); code = "F %d %d" % a
    elif k == "TS":
        e = R.ep_of(a[0])
        # IntervalSet([], []).time_span() raises IndexError (no object is produced: outside C04's statement); the model returns the empty set.
        # The call is not made; run_history counts these steps (skipped_time_span_of_empty_set)
        o = e.time_span() if len(e) else e
        code = "TS %d" % a[0]
    elif k == "DS":
        o = R.ep_of(a[0]).drop_short_intervals(a[1] / 1e9); code = "DS %d %d" % a
    elif k == "MC":
        o = R.ep_of(a[0]).merge_close_intervals(a[1] / 1e9); code = "MC %d %d" % a
    else:
        raise ValueError(k)
    return o, code


UNMODELLED = ["as_class", "core_any_class", "dropna_threshold", "make_group", "make_group", "bin_average", "interpolate", "convolve", "smooth", "numpy_ufunc", "numpy_func", "numpy_shape",
              "concatenate", "split_concat", "to_tsgroup_to_tsd", "tsgroup_restrict", "tsgroup_getby", "merge_group", "shift", "jitter", "resample", "shuffle", "randomize_group",
              "perievent", "slice_index", "mask_index", "tsdframe_cols", "find_support", "ep_split", "in_interval", "trial_count", "frame_bin_average", "raw_support", "raw_support",
              "off_lattice"]

CLASSES = ("Ts", "Tsd", "TsdFrame", "TsdTensor")


def class_name(nap, o):
    for c in ("TsdTensor", "TsdFrame", "Tsd", "Ts", "TsGroup", "IntervalSet"):
        if isinstance(o, getattr(nap, c)):
            return c
    return type(o).__name__


def as_class(nap, x, cls, sup=None):
    """x's timestamps under another of the four classes, through the public constructor (values are fresh), with x's support or the
    given one (the constructor then drops the samples outside it)"""
    t = np.asarray(x.t)
    n = len(t)
    sup = x.time_support if sup is None else sup
    if cls == "Ts":
        return nap.Ts(t, time_support=sup)
    if cls == "Tsd":
        return nap.Tsd(t, np.arange(n, dtype=float) + 1, time_support=sup)
    if cls == "TsdFrame":
        v = np.arange(n, dtype=float) + 1
        return nap.TsdFrame(t, np.stack([v, v * 2, v * 3], 1), time_support=sup, columns=["a", "b", "c"])
    return nap.TsdTensor(t, (np.arange(n * 4, dtype=float) + 1).reshape(n, 2, 2), time_support=sup)


def pick_series(R, rng):
    """ANY series of the store: all four classes, empty, one-sample, duplicate-timestamp and support-less ones included.
    The draws are spread over series with >= 2 samples, series with <= 1 sample, series with duplicate timestamps, and the whole store."""
    nap = R.nap
    pool = [o for o in R.objs + R.extra if isinstance(o, (nap.Ts, nap.Tsd, nap.TsdFrame, nap.TsdTensor))]
    if not pool:
        return None
    r = rng.random()
    big = [o for o in pool if len(o) >= 2]
    if big and r < 0.45:
        return rng.choice(big)
    small = [o for o in pool if len(o) <= 1]
    if small and r < 0.62:
        return rng.choice(small)
    dup = [o for o in big if np.any(np.diff(np.asarray(o.t)) == 0)]
    if dup and r < 0.72:
        return rng.choice(dup)
    return rng.choice(pool)


def unmodelled_calls(R, name, rng, info=None, forms=None, stats=None):
    """one unmodelled operation on objects of the real store: returns a list of (sub-operation label, thunk, reference thunk or None); every thunk is one public
    call (or a short chain) whose result - an object, or a list / dict of objects - is checked and fed to later operations.
    `info` (a dict) receives the class and size class of the input that was drawn.
    forms = a random.Random: the FORM families are available and the input of every family is re-cast with drawn dtype / t form / unit / column labels"""
    nap = R.nap
    if name in FORM_FAMILY_SET:
        return form_calls(R, name, rng, forms, info, stats) if forms is not None else []
    as_class_ = as_class
    if forms is not None:
        def as_class_(nap_, x_, cls_, sup_=None):
            return make_series(nap_, cls_, np.asarray(x_.t), forms, x_.time_support if sup_ is None else sup_, stats)
    x = pick_series(R, rng)
    if x is None:
        return []
    y = pick_series(R, rng)
    eps = [o for o in R.objs + R.extra if isinstance(o, nap.IntervalSet)]
    ep = rng.choice(eps) if eps and rng.random() < 0.85 else x.time_support      # possibly empty
    # the input under a class drawn at random (a stored TsdFrame / TsdTensor / Ts is used as it is half of the time)
    cls = class_name(nap, x)
    if rng.random() < 0.5:
        cls = rng.choice(CLASSES)
        X = x if (cls == class_name(nap, x) and forms is None) else as_class_(nap, x, cls)
    else:
        X = x
    XD = X if cls != "Ts" else as_class_(nap, X, "Tsd")       # a data-carrying version
    xd = X if cls == "Tsd" else as_class_(nap, X, "Tsd")      # a 1-d version
    xts = X if cls == "Ts" else as_class_(nap, X, "Ts")
    yd = y if (isinstance(y, nap.Tsd) and forms is None) else as_class_(nap, y, "Tsd")
    n = len(X)
    if info is not None:
        info.update({"cls": cls, "len": "0" if n == 0 else "1" if n == 1 else "2+", "support": "empty" if len(X.time_support) == 0 else "1" if len(X.time_support) == 1 else "2+",
                     "dup": bool(n >= 2 and np.any(np.diff(np.asarray(X.t)) == 0)), "zero_span_input": bool(n >= 1 and float(X.t[0]) == float(X.t[-1]))})
    b = (rng.choice([1, 2, 3]) * 2 * U2) / 1e9
    t0 = float(X.t[0]) if n else 0.0
    t1 = float(X.t[-1]) if n else 10 * U2 / 1e9
    out = []

    def add(sub, f, ref=None):
        out.append((sub, f, ref))

    if name == "as_class":
        for c in CLASSES:
            add("as_" + c, lambda c=c: as_class_(nap, x, c))
        # the public constructors WITHOUT a support (default support = [first, last]) in the three time units (seed C04-6: the default support built
        # in the caller's unit) and from the other accepted forms of t (a TsIndex, a list, a pandas Series with the times as index)
        tx = np.asarray(x.t)
        dx = np.arange(len(tx), dtype=float) + 1
        if len(tx) and tx[0] == tx[-1]:
            return out          # a series built from one instant has no positive duration: outside C04's hypothesis on starting objects (zero-span quirk, DESIGN 10.4)
        for u, f in (("s", 1.0), ("ms", 1e3), ("us", 1e6)):
            add("ctor_default_support_Ts_" + u, lambda u=u, f=f: nap.Ts(tx * f, time_units=u))
            add("ctor_default_support_Tsd_" + u, lambda u=u, f=f: nap.Tsd(tx * f, dx.copy(), time_units=u))
        add("ctor_default_support_TsdFrame_ms", lambda: nap.TsdFrame(tx * 1e3, np.stack([dx, dx * 2], 1), time_units="ms"))
        add("ctor_default_support_TsdTensor_us", lambda: nap.TsdTensor(tx * 1e6, np.stack([dx, dx * 2], 1).reshape(len(tx), 2, 1), time_units="us"))
        add("ctor_from_TsIndex", lambda: nap.Tsd(x.index, dx.copy(), time_support=x.time_support))
        add("ctor_from_list", lambda: nap.Ts([float(v) for v in tx]))
        return out
    if name == "core_any_class":
        # the modelled operations, on all four classes and on degenerate inputs
        a_, b_ = sorted(rng.choices(range(-1, NPT + 1), k=2))
        add("restrict", lambda: X.restrict(ep))
        add("get_window", lambda: X.get((lat(a_) + R.off) / 1e9, (lat(b_) + R.off) / 1e9))
        add("get_point_window", lambda: X.get(t0, t0))
        add("get_nearest", lambda: X.get((lat(a_) + R.off) / 1e9))
        add("count_ep", lambda: X.count(b, ep))
        add("count", lambda: X.count(b))
        add("count_nobin", lambda: X.count(ep=ep))
        add("value_from_ep", lambda: X.value_from(yd, ep))
        add("value_from", lambda: X.value_from(yd))
        add("copy", lambda: X.copy())
        add("support", lambda: X.time_support)
        add("time_support_ctor", lambda: as_class_(nap, X.restrict(ep), cls))
        add("ctor_dropping_samples_outside", lambda: as_class_(nap, X, cls, ep))
        return out
    if name == "dropna_threshold":
        if cls == "Ts":
            add("fillna", lambda: X.fillna(2.0))
            return out
        v = np.array(XD.values, dtype=float, copy=True)
        m = np.array([rng.random() < 0.4 for _ in range(n)], dtype=bool)
        v[m] = np.nan
        XN = XD.__class__(np.asarray(XD.t), v, time_support=XD.time_support)
        add("with_nan", lambda: XN)
        add("dropna", lambda: XN.dropna())
        add("dropna_keep_support", lambda: XN.dropna(update_time_support=False))
        thr = float(np.median(xd.values)) if n else 0.5
        add("threshold_above", lambda: xd.threshold(thr))
        add("threshold_below", lambda: xd.threshold(thr, "below"))
        add("threshold_aboveequal", lambda: xd.threshold(thr, "aboveequal"))
        return out
    if name == "raw_support":
        # a support given as RAW start/end arrays (overlapping, touching, chained so that a merged end meets the next start):
        # the constructor must normalise it before it reaches a series
        lo = int(round(t0 * 1e9)) // U2
        pts = sorted(rng.sample(range(lo - 2, lo + 14), rng.choice([4, 5, 6])))
        k = rng.choice([3, 4])
        st = [pts[0]]
        en = []
        for i in range(k):
            e = st[-1] + rng.choice([1, 2, 3])
            en.append(e)
            st.append(rng.choice([e - 1, e - 1, e, e, e + 1]) if e - 1 > st[-1] else e)
        st = st[:k]
        with warnings.catch_warnings():
            warnings.simplefilter("ignore")
            raw = nap.IntervalSet(start=np.array(st) * U2 / 1e9, end=np.array(en) * U2 / 1e9)
        add("ctor", lambda: raw)
        add("restrict", lambda: X.restrict(raw))
        add("as_time_support", lambda: as_class_(nap, X, cls, raw))
        add("ts_as_time_support", lambda: nap.Ts(np.asarray(X.t), time_support=raw))
        add("restrict_count", lambda: X.restrict(raw).count(b))
        return out
    if name == "bin_average":
        if cls == "Ts":
            return out
        add("ep", lambda: X.bin_average(b, ep))
        add("own_support", lambda: X.bin_average(b))
        return out
    if name == "frame_bin_average":
        fr = as_class_(nap, X, "TsdFrame")
        add("frame", lambda: fr)
        add("bin_average", lambda: fr.bin_average(b, ep))
        add("restrict", lambda: fr.restrict(ep))
        return out
    if name == "interpolate":
        add("ep", lambda: XD.interpolate(y, ep))
        add("own_support", lambda: XD.interpolate(y))
        return out
    if name == "convolve":
        add("full", lambda: XD.convolve(np.array([1.0, 2.0, 1.0])))
        add("ep_left", lambda: XD.convolve(np.array([1.0, 1.0]), ep=ep, trim="left"))
        add("right", lambda: XD.convolve(np.array([1.0, 1.0]), trim="right"))
        return out
    if name == "smooth":
        add("smooth", lambda: XD.smooth(3 * U2 / 1e9, size_factor=4))
        return out
    if name == "numpy_ufunc":
        add("mul_add", lambda: XD * 2 + 1)
        add("abs", lambda: np.abs(XD))
        add("greater", lambda: XD > 3)
        add("isnan", lambda: np.isnan(XD))
        return out
    if name == "numpy_func":
        add("cumsum", lambda: np.cumsum(XD, axis=0))
        add("flip", lambda: np.flip(XD, axis=0))
        add("clip", lambda: np.clip(XD, 1, 5))
        add("roll", lambda: np.roll(XD, 1, axis=0))
        add("where", lambda: np.where(XD > 1, XD, 0))
        add("nan_to_num", lambda: np.nan_to_num(XD))
        add("mean_last_axis", lambda: np.mean(XD, axis=-1) if XD.ndim > 1 else np.mean(XD))
        add("sum_keepdims", lambda: np.sum(XD, axis=0, keepdims=True))
        add("diff", lambda: np.diff(XD, axis=0))
        return out
    if name == "numpy_shape":
        add("take", lambda: np.take(XD, [0], axis=0))
        add("delete", lambda: np.delete(XD, 0, axis=0))
        add("repeat", lambda: np.repeat(XD, 2, axis=0))
        add("insert", lambda: np.insert(XD, 0, 0, axis=0))
        add("append", lambda: np.append(XD, XD))
        add("tile", lambda: np.tile(XD, 2))
        add("transpose", lambda: np.transpose(XD))
        add("squeeze", lambda: np.squeeze(XD))
        add("expand_dims", lambda: np.expand_dims(XD, -1))
        add("reshape", lambda: np.reshape(XD, (len(XD), -1)))
        if XD.ndim > 1:
            add("hstack", lambda: np.hstack((XD, XD)))
        add("pad", lambda: np.pad(XD, 1) if XD.ndim == 1 else None)
        return out
    if name == "concatenate":
        h = n // 2
        add("halves_by_slice", lambda: np.concatenate((XD[:h], XD[h:])))
        if n >= 4:
            add("halves_by_get", lambda: np.concatenate((XD.get(t0, float(X.t[h - 1])), XD.get(float(X.t[h]), t1))))
        add("with_empty", lambda: np.concatenate((XD[0:0], XD)))
        return out
    if name == "split_concat":
        add("array_split", lambda: list(np.array_split(XD, 2)))
        add("array_split3", lambda: list(np.array_split(XD, 3)))
        if n and n % 2 == 0:
            add("split", lambda: list(np.split(XD, 2)))
        return out
    if name == "to_tsgroup_to_tsd":
        lab = nap.Tsd(np.asarray(X.t), (np.arange(n) % 3).astype(float), time_support=X.time_support)
        add("to_tsgroup", lambda: lab.to_tsgroup())
        add("to_tsgroup_to_tsd", lambda: lab.to_tsgroup().to_tsd())
        add("ts_to_tsd", lambda: xts.fillna(1.0))
        return out
    if name == "make_group":
        keys = rng.sample([0, 1, 3, 4, 7, 9], 3)
        mem = {keys[0]: nap.Ts(np.asarray(x.t)), keys[1]: nap.Ts(np.asarray(y.t)), keys[2]: nap.Ts(np.asarray(x.t)[::2])}
        memsup = {keys[0]: xts, keys[1]: as_class_(nap, y, "Ts"), keys[2]: xd}
        sup = x.time_support.union(y.time_support)
        meta = {"lab": [int(k) * 10 for k in sorted(keys)]}
        add("explicit_support", lambda: nap.TsGroup(mem, time_support=sup, metadata=meta))
        add("explicit_other_support", lambda: nap.TsGroup(memsup, time_support=ep))
        # the DEFAULT support (union of the members' supports); an empty union is rejected by the constructor (RuntimeError)
        add("default_support", lambda: nap.TsGroup(memsup, metadata=meta))
        add("default_support_fresh_members", lambda: nap.TsGroup(mem))
        return out
    if name in ("tsgroup_restrict", "tsgroup_getby", "merge_group", "trial_count", "randomize_group"):
        groups = [o for o in R.objs + R.extra if isinstance(o, nap.TsGroup) and len(o) >= 1]
        if not groups:
            return out
        g = rng.choice(groups)   # a LIVE group: snapshots taken around the call cover it
        if name == "tsgroup_restrict":
            add("restrict", lambda: g.restrict(ep))
            add("select_two", lambda: g[list(g.keys())[:2]])
            add("member", lambda: g[list(g.keys())[0]])
            add("get_window", lambda: g.get(t0, t1))
            return out
        if name == "tsgroup_getby":
            add("getby_threshold", lambda: g.getby_threshold("rate", float(np.nanmedian(g.rate)), ">="))
            add("bool_index", lambda: g[g.rate > 0])
            add("to_tsd", lambda: g.to_tsd())
            return out
        if name == "trial_count":
            add("trial_count", lambda: g.trial_count(ep, b))
            add("count_ep", lambda: g.count(b, ep))
            add("count", lambda: g.count(b))
            add("value_from", lambda: g.value_from(yd, ep))
            return out
        if name == "randomize_group":
            st = np.random.get_state()
            seed_ = rng.randrange(2**31)

            def rnd(f):
                def w():
                    np.random.seed(seed_)
                    try:
                        return f()
                    finally:
                        np.random.set_state(st)
                return w
            add("shift_timestamps", rnd(lambda: nap.shift_timestamps(g, 0.0, U2 / 1e9)))
            add("jitter_timestamps", rnd(lambda: nap.jitter_timestamps(g, max_jitter=U2 / 1e9)))
            add("jitter_timestamps_keep_tsupport", rnd(lambda: nap.jitter_timestamps(g, max_jitter=U2 / 1e9, keep_tsupport=True)))
            add("resample_timestamps", rnd(lambda: nap.resample_timestamps(g)))
            add("shuffle_ts_intervals", rnd(lambda: nap.shuffle_ts_intervals(g)))
            return out
        others = [h for h in groups if h is not g and not (set(h.keys()) & set(g.keys())) and np.array_equal(h.time_support.values, g.time_support.values)]
        add("self_reset_index", lambda: nap.TsGroup.merge_group(g, g, reset_index=True))
        add("self_reset_index_ignore_metadata", lambda: nap.TsGroup.merge_group(g, g, reset_index=True, ignore_metadata=True))
        if others:
            h = rng.choice(others)
            add("same_support", lambda: nap.TsGroup.merge_group(g, h))
            add("same_support_reset_index", lambda: nap.TsGroup.merge_group(h, g, reset_index=True, ignore_metadata=True))
        # groups with DIFFERENT supports: every combination of the flags (members must end up on the union support)
        diff = [h for h in groups if h is not g and not np.array_equal(h.time_support.values, g.time_support.values)]
        if diff:
            h = rng.choice(diff)
            disjoint = not (set(h.keys()) & set(g.keys()))
            for ri in (False, True):
                if not ri and not disjoint:
                    continue
                for im in (False, True):
                    if not im and list(g.metadata_columns) != list(h.metadata_columns):
                        continue
                    add("reset_time_support_ri%d_im%d" % (ri, im), lambda ri=ri, im=im: nap.TsGroup.merge_group(g, h, reset_index=ri, reset_time_support=True, ignore_metadata=im))
        return out
    if name in ("shift", "jitter", "resample", "shuffle"):
        # on the series' own (possibly multi-interval, possibly empty) support and on the single interval spanning it
        cands = [("own_support", xts)]
        if len(xts.time_support) >= 2:
            one = nap.IntervalSet(xts.time_support.start[0], xts.time_support.end[-1])
            cands.append(("single_interval", nap.Ts(np.asarray(xts.t), time_support=one)))
        st = np.random.get_state()
        seed_ = rng.randrange(2**31)

        def rnd(f):
            def w():
                np.random.seed(seed_)
                try:
                    return f()
                finally:
                    np.random.set_state(st)
            return w
        for tag, ts1 in cands:
            if name == "shift":
                half = float(ts1.time_support.tot_length()) / 2 if len(ts1.time_support) else 1.0
                add("shift_timestamps@" + tag, rnd(lambda ts1=ts1, half=half: nap.shift_timestamps(ts1, 0.0, half)))
            elif name == "jitter":
                add("jitter_timestamps@" + tag, rnd(lambda ts1=ts1: nap.jitter_timestamps(ts1, max_jitter=U2 / 1e9)))
                add("jitter_timestamps_keep_tsupport@" + tag, rnd(lambda ts1=ts1: nap.jitter_timestamps(ts1, max_jitter=U2 / 1e9, keep_tsupport=True)))
            elif name == "resample":
                add("resample_timestamps@" + tag, rnd(lambda ts1=ts1: nap.resample_timestamps(ts1)))
            else:
                add("shuffle_ts_intervals@" + tag, rnd(lambda ts1=ts1: nap.shuffle_ts_intervals(ts1)))
        return out
    if name == "perievent":
        ref = nap.Ts(np.asarray(x.t)[::2], time_support=x.time_support)
        w = 2 * U2 / 1e9
        if cls in ("Ts", "Tsd"):
            add("compute_perievent", lambda: nap.compute_perievent(X, ref, minmax=(-w, w)))
        if cls != "Ts":
            add("compute_perievent_continuous", lambda: nap.compute_perievent_continuous(X, ref, minmax=(w, w)))
            add("compute_perievent_continuous_ep", lambda: nap.compute_perievent_continuous(X, ref, minmax=(w, w), ep=ep))
        return out
    if name == "slice_index":
        idx = list(range(n))
        rng.shuffle(idx)
        add("tail", lambda: X[1:])
        add("step2", lambda: X[::2])
        add("empty_slice", lambda: X[0:0])
        add("reversed", lambda: X[::-1])
        add("int_list_shuffled", lambda: X[idx[:3]])
        add("int_list_shuffled_then_get", lambda: X[idx].get(t0, t1))
        if n:
            add("single_int", lambda: X[n - 1])
        add("one_row_slice", lambda: X[0:1])
        if cls != "Ts":
            add("abs_reversed", lambda: np.abs(X[::-1]))
        if cls == "TsdFrame":
            add("column_int", lambda: X[:, 0])
            add("column_list", lambda: X[:, [X.shape[1] - 1]])
            add("rows_and_cols", lambda: X[1:, 0:2])
        if cls == "TsdTensor":
            add("first_plane", lambda: X[:, 0])
            add("element", lambda: X[:, 0, 0])
            add("last_axis", lambda: X[:, :, 0])
            add("rows_and_planes", lambda: X[1:, 0:1])
        return out
    if name == "mask_index":
        m = np.arange(n) % 2 == 0
        add("bool_array", lambda: X[m])
        add("bool_all_false", lambda: X[np.zeros(n, dtype=bool)])
        add("bool_tsd", lambda: XD[nap.Tsd(np.asarray(X.t), m, time_support=X.time_support)])
        return out
    if name == "tsdframe_cols":
        fr = as_class(nap, X, "TsdFrame")
        add("label_list", lambda: fr[["c", "a"]])
        add("loc", lambda: fr.loc["b"])
        add("label", lambda: fr["a"])
        add("positional", lambda: fr[:, 1:])
        return out
    if name == "find_support":
        add("find_support", lambda: X.find_support(2 * U2 / 1e9))
        add("find_support_restrict", lambda: X.restrict(X.find_support(2 * U2 / 1e9)))
        return out
    if name == "ep_split":
        add("split", lambda: ep.split(2 * U2 / 1e9))
        return out
    if name == "in_interval":
        add("in_interval", lambda: ep.in_interval(X))
        return out
    if name == "off_lattice":
        # timestamps and support edges OFF the lattice: arbitrary float64 instants, edges equal to samples or 0.5 us / 1 us away from them
        m = rng.randint(0, 7)
        lo_ = 0.0
        if forms is not None:                       # placement: off-lattice instants below 0, across 0, at 1e5 s
            lo_ = forms.choice([0.0, -1.0, -0.5, -1e3, 1e5])
            _note(stats, "off_lattice_origin:%g" % lo_)
        base = sorted(rng.uniform(0.0, 1.0) + lo_ for _ in range(m))
        if m >= 2 and rng.random() < 0.3:
            base[1] = base[0]
        tt = np.array(base)
        edges = set()
        for v in base:
            edges.add(v + rng.choice([0.0, 5e-7, -5e-7, 1e-6, -1e-6, 1e-9, -1e-9]))
        while len(edges) < 6:
            edges.add(rng.uniform(-0.1, 1.1) + lo_)
        ed = sorted(rng.sample(sorted(edges), 2 * rng.randint(1, 3)))
        if len(ed) >= 4 and rng.random() < 0.4:
            ed[2] = ed[1] + rng.choice([0.0, 5e-7, 1e-6, 2e-6])      # touching / closer than the 1 us separation
            ed = sorted(ed)
        with warnings.catch_warnings():
            warnings.simplefilter("ignore")
            sup = nap.IntervalSet(start=np.array(ed[0::2]), end=np.array(ed[1::2]))
        c2 = rng.choice(CLASSES)
        Z0 = as_class_(nap, nap.Ts(tt), c2) if m else as_class_(nap, nap.Ts(np.array([])), c2)
        add("support", lambda: sup)
        add("ctor_default_support", lambda: Z0)
        add("ctor_support", lambda: as_class_(nap, nap.Ts(tt, time_support=sup), c2))
        add("restrict", lambda: Z0.restrict(sup))
        add("restrict_count", lambda: Z0.restrict(sup).count(1e-1))
        add("count_ep", lambda: Z0.count(1e-1, sup))
        add("get", lambda: Z0.get(ed[0], ed[-1]))
        add("restrict_union_own", lambda: Z0.restrict(sup.union(Z0.time_support)))
        add("restrict_intersect_own", lambda: Z0.restrict(sup.intersect(Z0.time_support)))
        add("restrict_diff", lambda: Z0.restrict(Z0.time_support.set_diff(sup)))
        if c2 != "Ts":
            add("bin_average", lambda: Z0.bin_average(1e-1, sup))
            add("concatenate_restrictions", lambda: np.concatenate([Z0.restrict(sup[i]) for i in range(len(sup))]))
            add("dropna", lambda: Z0.restrict(sup).dropna())
        else:
            add("group_default_support", lambda: nap.TsGroup({0: Z0.restrict(sup), 1: Z0}))
        return out
    return out


def flatten_outputs(nap, y):
    """the library objects held by a result (an object, or a list / tuple / dict of objects)"""
    if isinstance(y, (nap.Ts, nap.Tsd, nap.TsdFrame, nap.TsdTensor, nap.TsGroup, nap.IntervalSet)):
        return [y]
    if isinstance(y, dict):
        return [z for v in y.values() for z in flatten_outputs(nap, v)]
    if isinstance(y, (list, tuple)):
        return [z for v in y for z in flatten_outputs(nap, v)]
    return []


def run_unmodelled(R, name, rng, exc=None, info=None, forms=None, stats=None, form_diff=None):
    """runs every call of one unmodelled operation; an exception of one call does not discard the results of the others.
    returns [(sub-operation label, object)]; exceptions are appended to `exc` as (label, text).  When a call comes with a REFERENCE (the same call in the most
    common form of its arguments) and both produce objects, their timestamps and supports must be equal: differences are appended to `form_diff`."""
    outs = []
    nap = R.nap
    for sub, f, ref in unmodelled_calls(R, name, rng, info, forms, stats):
        try:
            y = f()
        except Exception as ex:  # no object is produced
            if exc is not None:
                exc.append(("unmodelled:%s/%s" % (name, sub), type(ex).__name__ + ": " + str(ex)[:200]))
            continue
        zs = flatten_outputs(nap, y)
        outs.extend((sub, z) for z in zs)
        if ref is not None and form_diff is not None and zs:
            try:
                yr = ref()
            except Exception:
                yr = None
            if flatten_outputs(nap, yr):
                if stats is not None:
                    stats.append("reference_compared")
                a_, b_ = abstract_any(nap, y), abstract_any(nap, yr)
                if a_ != b_:
                    form_diff.append(("unmodelled:%s/%s" % (name, sub), a_[:400], b_[:400]))
    return outs


def apply_unmodelled(R, name, rng):
    """the result objects of one unmodelled operation (interface used by C10's mutating histories)"""
    return [o for _, o in run_unmodelled(R, name, rng)]


def run_history(nap, seed, hid, length, n_unmodelled, with_snapshots=False, forms=False):
    """executes one history. returns dict(model_codes, real_abstract, wf_failures, snapshot_failures, ops, exceptions).
    forms=True: every call is made with its arguments in drawn FORMS (a second generator derived from the seed draws them), the history is translated by a drawn
    offset, the FORM families are interleaved with the others; the keys `forms` (labels drawn) and `form_diff` (calls whose result differs from the reference form)"""
    rng = random.Random(seed * 1000003 + hid)
    frng = random.Random((seed * 1000003 + hid) * 7 + 3) if forms else None
    offset = frng.choice(OFFSETS) if forms else 0
    ops = gen_history(rng, length, offset)
    R = Real(nap)
    R.off = offset
    stats = [] if forms else None
    form_diff = []
    families = UNMODELLED + FORM_FAMILIES if forms else UNMODELLED
    if forms:
        stats.append("history_offset:" + {0: "none", -12 * U2: "across_zero", -40 * U2: "negative", 25600000 * U2: "plus_1e5_s"}[offset])
    codes, abstracts, wf_fail, snap_fail, exc, unm_done, unm_inputs, skipped, wf_keys = [], [], [], [], [], [], [], [], []
    n_checked = 0

    def guard(label, f):
        before = [snapshot(nap, o) for o in R.objs + R.extra] if with_snapshots else None
        try:
            res = f()
        except Exception as ex:  # an exception on valid inputs is reported by the caller
            exc.append((label, type(ex).__name__ + ": " + str(ex)[:200]))
            res = None
        if with_snapshots:
            after = [snapshot(nap, o) for o in (R.objs + R.extra)[: len(before)]]
            for i, (b_, a_) in enumerate(zip(before, after)):
                if not snap_equal(b_, a_):
                    snap_fail.append((label, i))
        return res

    for step, op in enumerate(ops):
        if op[0] == "TS" and len(R.ep_of(op[1][0])) == 0:
            skipped.append("time_span_of_empty_set")
        r = guard("op%d:%s" % (step, op[0]), lambda: apply_real(R, op, rng, None, frng, stats))
        if r is None:
            break
        o, code = r
        R.objs.append(o)
        codes.append(code)
        abstracts.append(norm_abs(abstract(nap, o)))
        w = wf_check(nap, o)
        n_checked += 1
        if w:
            wf_fail.append(("op%d:%s" % (step, op[0]), w[1], code))
            wf_keys.append({"op": op[0], "family": "modelled", "variant": None, "clause": w[0], "result": class_name(nap, o), "zero_span_default_support": w[2],
                            "zero_span_input": None})
        # interleave unmodelled operations
        if n_unmodelled and step >= 2 and rng.random() < n_unmodelled:
            name = rng.choice(families)
            info = {}
            outs = guard("unmodelled:" + name, lambda: run_unmodelled(R, name, rng, exc, info, frng, stats, form_diff))
            unm_done.append(name)
            unm_inputs.append(info)
            for sub, y in outs or []:
                R.extra.append(y)
                w = wf_check(nap, y)
                n_checked += 1
                if w:
                    wf_fail.append(("unmodelled:%s/%s" % (name, sub), w[1], None))
                    wf_keys.append({"op": sub.split("@")[0], "family": name, "variant": sub.split("@")[1] if "@" in sub else None, "clause": w[0],
                                    "result": class_name(nap, y), "zero_span_default_support": w[2], "zero_span_input": info.get("zero_span_input")})
    return {"codes": codes, "abstracts": abstracts, "wf": wf_fail, "snap": snap_fail, "exc": exc, "ops": ops, "unmodelled": unm_done,
            "unmodelled_inputs": unm_inputs, "skipped": skipped, "n_checked": n_checked, "wf_keys": wf_keys, "forms": [f for f in (stats or []) if f != "reference_compared"], "form_diff": form_diff, "offset": offset,
            "n_ref": sum(1 for f in (stats or []) if f == "reference_compared")}


# ------------------------------------------------------------------------------------------------------
# ARGUMENT FORMS (C04 widening).  Every helper draws from `frng` (a random.Random derived from the seed) and appends the labels of
# the forms it chose to `stats` (the check counts them: distribution "form:<label>").  A form never changes the INSTANTS of a call:
# unit changes are made only on the dyadic lattice (multiples of 2^-9 s below 2^20 s), where x*1e3, x*1e6 and the way back are exact.
DTYPE_DRAW = ("float64",) * 6 + ("float32", "float32", "int64", "int64", "int32", "int16", "int8", "uint8", "uint8", "uint16", "uint32", "uint64", "bool")
CONTENT_DRAW = ("plain",) * 8 + ("nan", "inf", "-inf", "inf_and_-inf", "zeros", "all_equal")
UNITS = (("s", 1.0), ("ms", 1e3), ("us", 1e6))
T_KINDS = ("ndarray", "ndarray", "list", "tuple", "pd_index", "pd_series", "tsindex", "tsindex", "view", "int_array", "float32", "scalar")
COLUMN_DRAW = (None, None, ["a", "b", "c"], [10, 3, 7], [2, 0, 1], ["10", "2", "b"], [1.5, 0.5, 2.5])
OFFSETS = (0, 0, 0, -12 * U2, -40 * U2, 25600000 * U2)        # none / straddling 0 / all negative / 1e5 s


def _note(stats, *labels):
    if stats is not None:
        stats.extend(labels)


def on_lattice(ts):
    """every value a multiple of 2^-9 s, below 2^20 s in magnitude: unit changes are exact"""
    a = np.asarray(ts, dtype=np.float64).ravel()
    return bool(np.all(np.isfinite(a)) and np.all(a * 512 == np.round(a * 512)) and np.all(np.abs(a) < 2 ** 20))


def unit_form(ts, frng, p=0.5):
    """(unit, factor): another time unit only where the conversion is exact"""
    if on_lattice(ts) and frng.random() < p:
        return frng.choice(UNITS[1:])
    return UNITS[0]


def scalar_form(v, frng, stats=None, tag="scalar", np32=False, npint=True):
    """one instant / duration as a Python float, a numpy float64 scalar, a Python int / numpy integer (when integral; numpy integers unless npint=False: count's bin_size is
    documented as `float or int` and refuses them), a numpy float32 scalar (np32=True, when the value is exact in float32: the library rounds such a scalar in float32
    arithmetic, so it is used only in calls WITHOUT a reference / model comparison)"""
    v = float(v)
    c = ["float", "float", "np.float64"]
    if np32 and float(np.float32(v)) == v:
        c.append("np.float32")
    if v == int(v) and abs(v) < 2 ** 31:
        c += ["int", "int"]
        if npint:
            c += ["np.int64", "np.int32", "np.uint16" if 0 <= v < 2 ** 16 else "np.int64"]
    k = frng.choice(c)
    _note(stats, tag + ":" + k)
    if k == "float":
        return v
    if k == "int":
        return int(v)
    return getattr(np, k[3:])(v)


def t_form(nap, ts, frng, stats=None, kinds=T_KINDS):
    """the instants `ts` (canonical float64 seconds) as another accepted form of a `t` argument: returns (t, time_units, kind)"""
    ts = np.asarray(ts, dtype=np.float64)
    kind = frng.choice(kinds)
    unit, f = unit_form(ts, frng) if kind != "tsindex" else UNITS[0]
    sc = ts * f
    if kind == "int_array":
        ok = len(sc) and np.all(sc == np.round(sc)) and np.all(np.abs(sc) < 2 ** 62)
        if not ok and on_lattice(ts) and len(ts) and np.all((ts * 512) % 2 == 0):
            unit, f = "us", 1e6                      # the history lattice (2^-8 s) holds whole numbers of quarter-microseconds: x4 steps are whole us
            sc = ts * f
            ok = np.all(sc == np.round(sc))
        if ok:
            lo, hi = float(sc.min()), float(sc.max())
            cands = [d for d in ("int64", "int32", "int16", "int8", "uint8", "uint16", "uint32", "uint64") if np.iinfo(d).min <= lo and hi <= np.iinfo(d).max]
            dt = frng.choice(cands)
            _note(stats, "t_dtype:" + dt)
            t = sc.astype(dt)
        else:
            kind, t = "ndarray", sc
    elif kind == "float32":
        if len(sc) and np.array_equal(sc.astype(np.float32).astype(np.float64), sc):
            t = sc.astype(np.float32)
        else:
            kind, t = "ndarray", sc
    elif kind == "scalar":
        if len(sc) == 1:
            t = scalar_form(sc[0], frng, stats, "t_scalar")
        else:
            kind, t = "list", [float(v) for v in sc]
    elif kind == "list":
        t = [float(v) for v in sc]
    elif kind == "tuple":
        t = tuple(float(v) for v in sc)
    elif kind == "pd_index":
        import pandas as pd
        t = pd.Index(sc, dtype=np.float64)
    elif kind == "pd_series":
        import pandas as pd
        t = pd.Series(sc, dtype=np.float64)
    elif kind == "tsindex":
        t = nap.Ts(ts).index                         # another object's TsIndex (already in seconds)
    elif kind == "view":
        t = np.repeat(sc, 2)[::2]                    # a strided view on a larger buffer
    else:
        t = sc
    _note(stats, "t:" + kind, "unit:" + unit)
    return t, unit, kind


def d_form(n, tail, frng, stats=None, content=None, dtypes=DTYPE_DRAW):
    """n rows of data (small whole numbers) of a drawn dtype and content (NaN / +inf / -inf rows, zeros, all-equal), sometimes as a Python list"""
    dt = frng.choice(dtypes)
    size = n * int(np.prod(tail)) if tail else n
    base = (np.arange(size) % 7 + 1).reshape((n,) + tuple(tail))
    d = (base % 2 == 0) if dt == "bool" else base.astype(dt)
    c = content or frng.choice(CONTENT_DRAW)
    if c == "zeros":
        d = np.zeros_like(d)
    elif c == "all_equal":
        d = np.ones_like(d) if dt == "bool" else np.full_like(d, 3)
    elif c in ("nan", "inf", "-inf", "inf_and_-inf") and dt.startswith("float") and n:
        rows = [i for i in range(n) if frng.random() < 0.4] or [frng.randrange(n)]
        for i in rows:
            if c == "inf_and_-inf" and d[i].size >= 2:
                d[i].flat[0], d[i].flat[1] = np.inf, -np.inf
            elif d.ndim == 1:
                d[i] = {"nan": np.nan, "inf": np.inf, "-inf": -np.inf}.get(c, np.inf)
            else:
                d[i].flat[frng.randrange(d[i].size)] = {"nan": np.nan, "inf": np.inf, "-inf": -np.inf}.get(c, -np.inf)
    else:
        c = "plain"
    _note(stats, "dtype:" + dt, "content:" + c)
    if n and frng.random() < 0.08:
        _note(stats, "d:list")
        return d.tolist()
    return d


def make_series(nap, cls, ts, frng, sup=None, stats=None, content=None, dtypes=DTYPE_DRAW, kinds=T_KINDS):
    """the instants `ts` under class `cls` through the public constructor, every argument in a drawn form (t: ndarray / list / tuple / pandas / TsIndex / view /
    integer or float32 array / scalar; unit s / ms / us; data dtype and content; positional or keyword arguments; TsdFrame column labels, DataFrame input, metadata)"""
    import pandas as pd
    ts = np.asarray(ts, dtype=np.float64)
    n = len(ts)
    t, unit, kind = t_form(nap, ts, frng, stats, kinds)
    kw = frng.random() < 0.5
    _note(stats, "cls:" + cls, "args:keyword" if kw else "args:positional", "support:given" if sup is not None else "support:default")
    if cls == "Ts":
        return nap.Ts(t=t, time_units=unit, time_support=sup) if kw else nap.Ts(t, unit, sup)
    if cls == "Tsd":
        d = d_form(n, (), frng, stats, content, dtypes)
        if kind == "pd_series":                      # Tsd(Series): the index holds the times, the values the data
            _note(stats, "Tsd_from_Series")
            return nap.Tsd(pd.Series(index=np.asarray(t), data=d), time_units=unit, time_support=sup)
        return nap.Tsd(t=t, d=d, time_units=unit, time_support=sup) if kw else nap.Tsd(t, d, unit, sup)
    if cls == "TsdFrame":
        d = d_form(n, (3,), frng, stats, content, dtypes)
        cols = frng.choice(COLUMN_DRAW)
        _note(stats, "columns:" + ("default" if cols is None else "strings" if all(isinstance(c, str) for c in cols) else "floats" if isinstance(cols[0], float) else "ints_not_0..n-1" if sorted(cols) != [0, 1, 2] else "ints_unsorted"))
        meta = {"m": [1, 2, 3]} if frng.random() < 0.2 else None
        if meta:
            _note(stats, "frame_metadata")
        if frng.random() < 0.15 and not isinstance(t, (int, float, np.number)):
            _note(stats, "TsdFrame_from_DataFrame")
            df = pd.DataFrame(index=np.asarray(t, dtype=np.float64), data=np.asarray(d), columns=cols)
            return nap.TsdFrame(df, time_units=unit, time_support=sup, metadata=meta)
        la = frng.random() < 0.8 or not isinstance(d, np.ndarray)         # load_array=False is documented for array-like data only
        return (nap.TsdFrame(t=t, d=d, time_units=unit, time_support=sup, columns=cols, load_array=la, metadata=meta) if kw
                else nap.TsdFrame(t, d, unit, sup, cols, la, meta))
    tail = frng.choice([(2, 2), (1, 3), (2, 1, 2)])
    d = d_form(n, tail, frng, stats, content, dtypes)
    return nap.TsdTensor(t=t, d=d, time_units=unit, time_support=sup) if kw else nap.TsdTensor(t, d, unit, sup)


def recast(nap, x, frng, stats=None, cls=None, sup=None, content=None, dtypes=DTYPE_DRAW):
    """x's timestamps (and support) under a drawn class / dtype / argument form"""
    return make_series(nap, cls or frng.choice(CLASSES), np.asarray(x.t), frng, x.time_support if sup is None else sup, stats, content, dtypes)


def ep_form(nap, ep, frng, stats=None):
    """the interval set `ep` (canonical) rebuilt through another accepted form of the IntervalSet constructor, or itself"""
    import pandas as pd
    v = np.asarray(ep.values, dtype=np.float64)
    n = len(v)
    k = frng.choice(["same", "same", "copy_ctor", "metadata", "unit", "lists", "tuples", "two_columns", "dataframe", "series", "keywords", "int_arrays", "view", "scalars"])
    if k == "same":
        out = ep
    elif k == "copy_ctor":
        out = nap.IntervalSet(ep)
    elif k == "metadata":
        out = nap.IntervalSet(v[:, 0], v[:, 1], metadata={"lab": np.arange(n) * 10, "name": ["i%d" % i for i in range(n)]})
    elif k == "unit":
        u, f = unit_form(v, frng, 1.0)
        k = "unit_" + u
        out = nap.IntervalSet(v[:, 0] * f, v[:, 1] * f, u) if frng.random() < 0.5 else nap.IntervalSet(start=v[:, 0] * f, end=v[:, 1] * f, time_units=u)
    elif k == "lists":
        out = nap.IntervalSet([float(a) for a in v[:, 0]], [float(a) for a in v[:, 1]])
    elif k == "tuples":
        out = nap.IntervalSet(tuple(float(a) for a in v[:, 0]), tuple(float(a) for a in v[:, 1]))
    elif k == "two_columns" and n:
        out = nap.IntervalSet(v.copy()) if frng.random() < 0.5 else nap.IntervalSet([(float(a), float(b)) for a, b in v])
    elif k == "dataframe":
        out = nap.IntervalSet(pd.DataFrame({"start": v[:, 0], "end": v[:, 1]}))
    elif k == "series":
        out = nap.IntervalSet(pd.Series(v[:, 0], dtype=np.float64), pd.Series(v[:, 1], dtype=np.float64))
    elif k == "keywords":
        out = nap.IntervalSet(end=v[:, 1].copy(), start=v[:, 0].copy(), time_units="s", metadata=None)
    elif k == "int_arrays" and n and on_lattice(v) and np.all((v * 512) % 2 == 0):
        us = v * 1e6                                      # whole microseconds when every edge is a multiple of 4 lattice steps; else whole quarter-us are not integers
        if np.all(us == np.round(us)):
            cands = [d for d in ("int64", "uint64", "uint32", "int32") if np.iinfo(d).min <= us.min() and us.max() <= np.iinfo(d).max]
            dt = frng.choice(cands)
            k = "int_arrays_" + dt
            out = nap.IntervalSet(us[:, 0].astype(dt), us[:, 1].astype(dt), time_units="us")
        else:
            k, out = "same", ep
    elif k == "view":
        out = nap.IntervalSet(np.repeat(v[:, 0], 2)[::2], v[:, 1])
    elif k == "scalars" and n == 1:
        out = nap.IntervalSet(scalar_form(v[0, 0], frng, stats, "ep_scalar"), scalar_form(v[0, 1], frng, stats, "ep_scalar"))
    else:
        k, out = "same", ep
    _note(stats, "ep:" + k)
    return out


def _call(f, pos, kw, frng, stats=None, tag="call"):
    """f called with its leading arguments positionally and the rest by keyword: `pos` = [(name, value)], cut at a drawn place; `kw` = extra keyword arguments
    (optional parameters given explicitly)"""
    cut = frng.randint(0, len(pos))
    _note(stats, tag + (":all_positional" if cut == len(pos) else ":all_keyword" if cut == 0 else ":mixed"))
    kws = {k: v for k, v in pos[cut:]}
    kws.update(kw)
    return f(*[v for _, v in pos[:cut]], **kws)


def apply_real_forms(R, op, rng, frng, stats=None):
    """apply_real with every argument of the modelled operation in a drawn FORM (same instants, same call): the abstract result (timestamps, support) must still be
    the model's.  `rng` is consumed exactly as apply_real consumes it (the masks of T / D)."""
    nap = R.nap
    k, a, l1, l2 = op

    def recv(i, data=False):
        x = R.ts_of(i)
        # (a series emptied by its constructor keeps the support it was given: no constructor call on its own - empty - timestamps rebuilds it, so it is used as it is)
        if frng.random() < 0.5 and not (len(x) == 0 and len(x.time_support) and not (data and isinstance(x, nap.Ts))):
            c = frng.choice(CLASSES[1:] if data else CLASSES)
            return recast(nap, x, frng, stats, c)
        if data and isinstance(x, nap.Ts):
            return recast(nap, x, frng, stats, frng.choice(CLASSES[1:]))
        return x

    _note(stats, "modelled_op_in_forms:" + k)
    if k == "MT":
        o = make_series(nap, frng.choice(CLASSES), G.arr(l1), frng, None, stats)
        return o, "MT : " + C.fmt_ints(l1)
    if k == "MS":
        o = make_series(nap, frng.choice(CLASSES), G.arr(l1), frng, ep_form(nap, R.ep_of(a[0]), frng, stats), stats)
        return o, "MS %d : %s" % (a[0], C.fmt_ints(l1))
    if k == "ME":
        import pandas as pd
        s_, e_ = G.arr(l1), G.arr(l2)
        u, f = unit_form(np.concatenate([s_, e_]), frng)
        form = frng.choice(["arrays", "lists", "tuples", "series", "keywords", "two_columns", "dataframe", "metadata", "scalars"])
        if form == "lists":
            o = nap.IntervalSet([float(v) for v in s_ * f], [float(v) for v in e_ * f], u)
        elif form == "tuples":
            o = nap.IntervalSet(tuple(float(v) for v in s_ * f), tuple(float(v) for v in e_ * f), time_units=u)
        elif form == "series":
            o = nap.IntervalSet(pd.Series(s_ * f, dtype=np.float64), pd.Series(e_ * f, dtype=np.float64), time_units=u)
        elif form == "keywords":
            o = nap.IntervalSet(end=e_ * f, start=s_ * f, time_units=u, metadata=None)
        elif form == "two_columns" and len(s_):
            o = nap.IntervalSet(np.stack([s_ * f, e_ * f], 1), time_units=u)
        elif form == "dataframe":
            o = nap.IntervalSet(pd.DataFrame({"start": s_ * f, "end": e_ * f}), time_units=u)
        elif form == "metadata":
            o = nap.IntervalSet(s_ * f, e_ * f, u, {"lab": list(range(len(s_)))})
        elif form == "scalars" and len(s_) == 1:
            o = nap.IntervalSet(scalar_form(s_[0] * f, frng, stats, "ep_scalar"), scalar_form(e_[0] * f, frng, stats, "ep_scalar"), u)
        else:
            form = "arrays"
            o = nap.IntervalSet(s_ * f, e_ * f, u)
        _note(stats, "ME:" + form, "unit:" + u)
        return o, "ME : %s : %s" % (C.fmt_ints(l1), C.fmt_ints(l2))
    if k == "SU":
        return recv(a[0]).time_support, "SU %d" % a[0]
    if k == "R":
        x, ep = recv(a[0]), ep_form(nap, R.ep_of(a[1]), frng, stats)
        o = _call(x.restrict, [("iset", ep)], {}, frng, stats, "restrict")
        return o, "R %d %d" % a
    if k == "G":
        x = recv(a[0])
        s_, e_ = a[1] / 1e9, a[2] / 1e9
        u, f = unit_form([s_, e_], frng)
        kw = {"time_units": u} if (u != "s" or frng.random() < 0.3) else {}
        o = _call(x.get, [("start", scalar_form(s_ * f, frng, stats, "get_scalar")), ("end", scalar_form(e_ * f, frng, stats, "get_scalar"))] + ([("time_units", kw.pop("time_units"))] if kw and frng.random() < 0.5 else []),
                  kw, frng, stats, "get")
        _note(stats, "unit:" + u)
        return o, "G %d %d %d" % a
    if k == "C":
        x, ep = recv(a[0]), ep_form(nap, R.ep_of(a[1]), frng, stats)
        b = 2 * a[2] / 1e9
        u, f = unit_form([b], frng)
        dt = frng.choice([None, None, np.int64, np.float64, "int32", np.uint8, np.float32, bool])
        pos = [("bin_size", scalar_form(b * f, frng, stats, "bin_scalar", npint=False)), ("ep", ep)]
        kw = {}
        if u != "s" or dt is not None or frng.random() < 0.3:
            pos.append(("time_units", u))
            if dt is not None or frng.random() < 0.3:
                pos.append(("dtype", dt))
        _note(stats, "unit:" + u, "count_dtype:" + str(dt if not isinstance(dt, type) else dt.__name__))
        o = _call(x.count, pos, kw, frng, stats, "count")
        return o, "C %d %d %d" % a
    if k == "V":
        x, d, ep = recv(a[0]), recv(a[1], data=True), ep_form(nap, R.ep_of(a[2]), frng, stats)
        pos = [("data", d), ("ep", ep)] + ([("mode", "closest")] if frng.random() < 0.4 else [])
        o = _call(x.value_from, pos, {}, frng, stats, "value_from")
        return o, "V %d %d %d" % a
    if k in ("T", "D"):
        x = R.ts_of(a[0])
        n = len(x)
        mask = [rng.randint(0, 1) for _ in range(n)]
        m = np.asarray(mask, dtype=bool)
        tx = np.asarray(x.t)
        if k == "T":
            method = frng.choice(["above", "above", "below", "aboveequal", "belowequal"])
            dt = frng.choice(["float64", "float64", "float32", "int64", "int8", "uint8", "uint16", "bool"])
            keep_high = method in ("above", "aboveequal")
            d = (m if keep_high else ~m).astype(dt)                       # 1 where kept for above*, 0 where kept for below*
            thr = {"above": 0.5, "below": 0.5, "aboveequal": 1, "belowequal": 0}[method]
            thr = scalar_form(thr, frng, stats, "thr_scalar")
            t, u, kind = t_form(nap, tx, frng, stats, tuple(q for q in T_KINDS if q != "pd_series"))
            y = nap.Tsd(t, d, u, x.time_support) if frng.random() < 0.5 else nap.Tsd(t=t, d=d, time_units=u, time_support=x.time_support)
            pos = [("thr", thr)] + ([("method", method)] if method != "above" or frng.random() < 0.5 else [])
            o = _call(y.threshold, pos, {}, frng, stats, "threshold")
            _note(stats, "threshold_method:" + method, "dtype:" + dt)
        else:
            cls = frng.choice(CLASSES[1:])
            dt = frng.choice(["float64", "float64", "float32"])
            tail = {"Tsd": (), "TsdFrame": (3,), "TsdTensor": (2, 2)}[cls]
            d = (np.arange(n * int(np.prod(tail)) if tail else n) % 5 + 1.0).reshape((n,) + tail).astype(dt)
            fill = frng.choice(["finite", "inf", "-inf", "inf_and_-inf"])
            for i in range(n):
                if not mask[i]:
                    d[i] = np.nan if d.ndim == 1 else d[i]
                    if d.ndim > 1:
                        d[i].flat[frng.randrange(d[i].size)] = np.nan       # ONE NaN in the row
                elif fill != "finite":
                    if d.ndim == 1:
                        d[i] = -np.inf if fill == "-inf" or (fill == "inf_and_-inf" and i % 2) else np.inf
                    elif fill == "inf_and_-inf":
                        d[i].flat[0], d[i].flat[1] = np.inf, -np.inf        # a kept row holding both infinities (their sum is NaN)
                    else:
                        d[i].flat[frng.randrange(d[i].size)] = np.inf if fill == "inf" else -np.inf
            t, u, kind = t_form(nap, tx, frng, stats, tuple(q for q in T_KINDS if q != "pd_series"))
            y = getattr(nap, cls)(t, d, u, x.time_support)
            pos = [("update_time_support", True)] if frng.random() < 0.5 else []
            o = _call(y.dropna, pos, {}, frng, stats, "dropna")
            _note(stats, "dropna_class:" + cls, "dropna_kept_rows:" + fill, "dtype:" + dt)
        return o, "%s %d : %s" % (k, a[0], C.fmt_ints(mask))
    if k in ("U", "I", "F"):
        e1 = ep_form(nap, R.ep_of(a[0]), frng, stats)
        e2 = e1 if (a[0] == a[1] and frng.random() < 0.5) else ep_form(nap, R.ep_of(a[1]), frng, stats)     # the same live object used twice
        f = {"U": e1.union, "I": e1.intersect, "F": e1.set_diff}[k]
        return _call(f, [("a", e2)], {}, frng, stats, "setop"), "%s %d %d" % ((k,) + a)
    if k == "TS":
        e = ep_form(nap, R.ep_of(a[0]), frng, stats)
        return (e.time_span() if len(e) else e), "TS %d" % a[0]
    if k in ("DS", "MC"):
        e = ep_form(nap, R.ep_of(a[0]), frng, stats)
        th = a[1] / 1e9
        u, f = unit_form([th], frng)
        pos = [("threshold", scalar_form(th * f, frng, stats, "dur_scalar"))] + ([("time_units", u)] if u != "s" or frng.random() < 0.3 else [])
        _note(stats, "unit:" + u)
        g = e.drop_short_intervals if k == "DS" else e.merge_close_intervals
        return _call(g, pos, {}, frng, stats, "dur_op"), "%s %d %d" % ((k,) + a)
    raise ValueError(k)


def each(*fs):
    """the results of the thunks that do not raise (a list: every object is checked)"""
    res = []
    for f in fs:
        try:
            res.append(f())
        except Exception:
            pass
    return res


FORM_FAMILIES = ["f_ctor", "f_ctor", "f_int_times", "f_get", "f_index", "f_count", "f_bin_average", "f_value_from", "f_interpolate", "f_threshold", "f_dropna", "f_convolve", "f_smooth",
                 "f_numpy", "f_concat_split", "f_group_ctor", "f_group_ctor", "f_group_ops", "f_group_empty", "f_merge", "f_to_tsd_tsgroup", "f_random", "f_perievent", "f_setops",
                 "f_saveload", "f_placement", "f_chain"]


def abstract_any(nap, y):
    """timestamps and support of a result (an object, or a list / dict of objects); group members in key order"""
    if isinstance(y, nap.TsGroup):
        return "G[" + " ; ".join("%s=%s" % (k, norm_abs(abstract(nap, y[k]))) for k in y.keys()) + "] / " + norm_abs(abstract(nap, y.time_support))
    if isinstance(y, (nap.Ts, nap.Tsd, nap.TsdFrame, nap.TsdTensor, nap.IntervalSet)):
        return norm_abs(abstract(nap, y))
    if isinstance(y, dict):
        return "{" + " , ".join("%s:%s" % (k, abstract_any(nap, v)) for k, v in y.items()) + "}"
    if isinstance(y, (list, tuple)):
        return "(" + " , ".join(abstract_any(nap, v) for v in y) + ")"
    return "other"


def form_calls(R, name, rng, frng, info=None, stats=None):
    """one FORM family on objects of the real store: list of (label, thunk, reference thunk or None).  Each thunk is one public call with its arguments in a drawn form;
    when a reference is given it is the same call in the most common form and both must produce the same timestamps and support (checked by run_unmodelled: form_diff)."""
    import pandas as pd
    nap = R.nap
    x = pick_series(R, rng)
    if x is None:
        return []
    y = pick_series(R, rng)
    eps = [o for o in R.objs + R.extra if isinstance(o, nap.IntervalSet)]
    ep = rng.choice(eps) if eps and rng.random() < 0.85 else x.time_support
    cls = frng.choice(CLASSES)
    X = recast(nap, x, frng, stats, cls)                                     # the receiver, under a drawn class / dtype / form
    n = len(X)
    tx = np.asarray(X.t)
    onl = on_lattice(tx) and on_lattice(X.time_support.values) and on_lattice(ep.values)
    if info is not None:
        info.update({"cls": cls, "len": "0" if n == 0 else "1" if n == 1 else "2+", "support": "empty" if len(X.time_support) == 0 else "1" if len(X.time_support) == 1 else "2+",
                     "dup": bool(n >= 2 and np.any(np.diff(tx) == 0)), "zero_span_input": bool(n >= 1 and float(tx[0]) == float(tx[-1]))})
    off = R.off / 1e9
    b = (rng.choice([1, 2, 3]) * 2 * U2) / 1e9
    t0 = float(tx[0]) if n else off
    t1 = float(tx[-1]) if n else off + 10 * U2 / 1e9
    out = []

    def add(sub, f, ref=None):
        out.append((sub, f, ref))

    def data_of(c=None, content=None, dtypes=DTYPE_DRAW):
        return recast(nap, X, frng, stats, c or frng.choice(CLASSES[1:]), content=content, dtypes=dtypes)

    def u_of(vals, p=0.6):
        return unit_form(vals, frng, p) if onl else UNITS[0]

    if name == "f_ctor":
        # every constructor x every form of t / unit / dtype / columns, with the default support, the receiver's support and another set; TsIndex of ANOTHER live object
        if n and tx[0] == tx[-1]:
            return out                                                    # one instant: no positive duration (hypothesis of C04 on starting objects)
        for c in CLASSES:
            add("default_support_" + c, lambda c=c: make_series(nap, c, tx, frng, None, stats))
            add("own_support_" + c, lambda c=c: make_series(nap, c, tx, frng, X.time_support, stats), lambda c=c: as_class(nap, X, c))
            add("other_support_" + c, lambda c=c: make_series(nap, c, tx, frng, ep_form(nap, ep, frng, stats), stats), lambda c=c: as_class(nap, X, c, ep))
        add("live_TsIndex_Ts", lambda: nap.Ts(X.index), lambda: nap.Ts(tx))
        add("live_TsIndex_Tsd_kw", lambda: nap.Tsd(t=X.index, d=np.arange(n), time_units="s", time_support=None), lambda: nap.Tsd(tx, np.arange(n)))
        add("live_TsIndex_TsdFrame_support", lambda: nap.TsdFrame(X.index, np.zeros((n, 2)), time_support=ep), lambda: nap.TsdFrame(tx, np.zeros((n, 2)), time_support=ep))
        add("live_TsIndex_TsdTensor", lambda: nap.TsdTensor(X.index, np.zeros((n, 2, 2), dtype=np.int16)), lambda: nap.TsdTensor(tx, np.zeros((n, 2, 2))))
        add("live_TsIndex_slice", lambda: nap.Ts(X.index[1:]) if n >= 3 and tx[1] != tx[-1] else None, lambda: nap.Ts(tx[1:]) if n >= 3 and tx[1] != tx[-1] else None)
        add("zero_d_array_t", lambda: nap.Ts(np.array(t0), time_support=X.time_support))                                   # not 1-dimensional: AssertionError, or well formed under a positive-duration support
        add("unit_other_case", lambda: nap.Ts(tx, "MS"))
        add("unsorted_list_ms", lambda: nap.Tsd([float(v) * 1e3 for v in tx[::-1]], list(range(n)), "ms") if onl else None, lambda: nap.Tsd(tx, np.arange(n)) if onl else None)
        return out
    if name == "f_int_times":
        # integer-dtype time arrays (signed, unsigned, small widths) in the three units, sorted or not, for the series AND the support
        m = frng.choice([0, 2, 3, 4, 5, 6])                                  # (one sample = one instant: no positive duration)
        neg = frng.random() < 0.4
        ks = [frng.randrange(-100 if neg else 0, 120) for _ in range(m)]
        if m >= 2 and frng.random() < 0.7:
            ks.sort()
        if m >= 2 and len(set(ks)) == 1:
            ks[-1] += 5
        dts = [d for d in ("int64", "int32", "int16", "int8", "uint8", "uint16", "uint32", "uint64") if not (neg and d.startswith("u"))]
        for c in CLASSES:
            dt = frng.choice(dts)
            u, f = frng.choice(UNITS)
            ti = np.array(ks, dtype=dt)
            tf = np.array(ks, dtype=np.float64) / f
            _note(stats, "int_times:" + dt, "unit:" + u)
            dd = {"Ts": None, "Tsd": np.arange(m), "TsdFrame": np.zeros((m, 2)), "TsdTensor": np.zeros((m, 2, 2))}[c]
            K = getattr(nap, c)
            add("default_support_%s" % c, (lambda K=K, ti=ti, u=u, dd=dd: K(ti, time_units=u) if dd is None else K(ti, dd, time_units=u)),
                (lambda K=K, tf=tf, dd=dd: K(tf) if dd is None else K(tf, dd)))
            e0, e1 = (min(ks) if ks else 0) + 1, (max(ks) if ks else 0) + 3
            st, en = np.array([e0, e0 + 50], dtype=dt if e0 + 53 <= np.iinfo(dt).max else "int64"), np.array([e0 + 2, e0 + 53], dtype=dt if e0 + 53 <= np.iinfo(dt).max else "int64")
            add("int_support_%s" % c, (lambda K=K, ti=ti, u=u, dd=dd, st=st, en=en: K(ti, time_units=u, time_support=nap.IntervalSet(st, en, u)) if dd is None
                                       else K(ti, dd, time_units=u, time_support=nap.IntervalSet(st, en, time_units=u))),
                (lambda K=K, tf=tf, dd=dd, st=st, en=en, f=f: K(tf, time_support=nap.IntervalSet(st.astype(float) / f, en.astype(float) / f)) if dd is None
                 else K(tf, dd, time_support=nap.IntervalSet(st.astype(float) / f, en.astype(float) / f))))
        # interval sets from unsigned / small integer arrays: unsorted starts, overlapping, touching
        for j in range(3):
            dt = frng.choice(["uint8", "uint16", "uint64", "int8", "int64", "uint32"])
            pts = [frng.randrange(0, 100) for _ in range(2 * frng.randint(1, 3))]
            st, en = np.array(pts[0::2], dtype=dt), np.array(pts[1::2], dtype=dt)
            u, f = frng.choice(UNITS)
            _note(stats, "int_support:" + dt)
            add("intervalset_int_%d" % j, lambda st=st, en=en, u=u: nap.IntervalSet(st, en, u), lambda st=st, en=en, f=f: nap.IntervalSet(st.astype(np.float64) / f, en.astype(np.float64) / f))
            add("restrict_int_support_%d" % j, lambda st=st, en=en, u=u: X.restrict(nap.IntervalSet(start=st, end=en, time_units=u)))
        return out
    if name == "f_get":
        a_, b_ = sorted(rng.choices(range(-1, NPT + 1), k=2))
        s_, e_ = (lat(a_) + R.off) / 1e9, (lat(b_) + R.off) / 1e9
        for j in range(3):
            u, f = u_of([s_, e_])
            add("window_%d" % j, lambda u=u, f=f: _call(X.get, [("start", scalar_form(s_ * f, frng, stats, "get_scalar")), ("end", scalar_form(e_ * f, frng, stats, "get_scalar")), ("time_units", u)],
                                                        {}, frng, stats, "get"), lambda: X.get(s_, e_))
            add("nearest_%d" % j, lambda u=u, f=f: _call(X.get, [("start", scalar_form(s_ * f, frng, stats, "get_scalar")), ("end", None), ("time_units", u)], {}, frng, stats, "get"),
                lambda: X.get(s_))
        add("window_on_samples", lambda: X.get(np.float64(t0), t1), lambda: X.get(t0, t1))
        add("window_float32_scalars", lambda: X.get(np.float32(s_), np.float32(e_)))          # (rounded by the library in float32 arithmetic: no reference)
        add("nearest_float32_scalar", lambda: X.get(np.float32(t0)))
        add("zero_d_array_bounds", lambda: X.get(np.array(s_), np.array(e_)))                  # not a number: ValueError, or a well-formed result
        add("string_unit_other_case", lambda: X.get(s_, e_, "MS"))
        add("get_slice_then_index", lambda: X[X.get_slice(s_, e_)], lambda: X.get(s_, e_))
        add("get_slice_kw_unit", lambda: X[X.get_slice(start=s_ * 1e3, end=e_ * 1e3, time_unit="ms")] if onl else None, lambda: X.get(s_, e_) if onl else None)
        add("int_bounds", lambda: X.get(int(np.floor(t0)), int(np.ceil(t1)) + 1), lambda: X.get(float(np.floor(t0)), float(np.ceil(t1)) + 1.0))
        add("get_twice_same_object", lambda: [X.get(s_, e_), X.get(s_, e_).get(s_, e_)])
        return out
    if name == "f_index":
        idx = list(range(n))
        rng.shuffle(idx)
        for dt in ("int64", "int32", "uint8", "int8"):
            add("int_array_" + dt, lambda dt=dt: X[np.array(idx[:4], dtype=dt)], lambda: X[idx[:4]])
        add("negative_indices", lambda: X[[-1, 0]] if n else None, lambda: X[[n - 1, 0]] if n else None)
        add("negative_single", lambda: X[-1] if n else None)
        add("np_int_single", lambda: X[np.int64(0)] if n else None, lambda: X[0] if n else None)
        add("tuple_of_slice", lambda: X[(slice(0, 2),)], lambda: X[0:2])
        add("ellipsis", lambda: X[...] if cls != "Ts" else None)
        add("bool_list", lambda: X[[i % 2 == 0 for i in range(n)]], lambda: X[np.arange(n) % 2 == 0])
        add("bool_tsd_other_dtype", lambda: data_of()[nap.Tsd(tx, np.arange(n) % 2 == 0, time_support=X.time_support)])
        add("slice_negative_step_then_restrict", lambda: X[::-2].restrict(ep))
        add("slice_np_ints", lambda: X[np.int64(1):np.int64(3)], lambda: X[1:3])
        add("shuffled_then_count", lambda: X[idx].count(b))
        add("shuffled_then_value_from", lambda: X[idx].value_from(data_of("Tsd"), ep))
        add("repeated_indices", lambda: X[[0, 0, 1]] if n >= 2 else None)
        if cls == "TsdFrame":
            add("column_bool", lambda: X[:, [True, False, True]])
            add("column_label_list", lambda: X.loc[list(X.columns[::-1])])
            add("column_single_label", lambda: X.loc[X.columns[1]])
            add("rows_shuffled_columns_reversed", lambda: X[idx[:3], ::-1])
        if cls == "TsdTensor":
            add("rows_shuffled_first_plane", lambda: X[idx[:3], 0])
            add("newaxis", lambda: X[:, np.newaxis])
        return out
    if name == "f_count":
        dts = [None, np.int64, np.float64, "int16", np.uint8, np.float32, "uint64"]
        for j in range(4):
            u, f = u_of([b])
            dt = frng.choice(dts)
            e2 = ep_form(nap, ep, frng, stats) if frng.random() < 0.7 else None
            pos = [("bin_size", scalar_form(b * f, frng, stats, "bin_scalar", npint=False)), ("ep", e2), ("time_units", u), ("dtype", dt)]
            _note(stats, "unit:" + u, "count_dtype:" + str(dt if not isinstance(dt, type) else dt.__name__))
            add("binned_%d" % j, lambda pos=pos: _call(X.count, pos, {}, frng, stats, "count"), lambda e2=e2: X.count(b, e2))
        add("no_bin_ep_positional_none", lambda: X.count(None, ep), lambda: X.count(ep=ep))
        add("no_arguments", lambda: X.count(), lambda: X.count(ep=X.time_support))
        add("unit_without_bin", lambda: X.count(ep=ep, time_units="ms"), lambda: X.count(ep=ep))
        add("int_bin", lambda: X.count(1), lambda: X.count(1.0))
        add("np_float32_bin", lambda: X.count(np.float32(b)))                 # not a float: TypeError, or a well-formed result
        add("bin_wider_than_support", lambda: X.count(1000.0, ep))
        add("count_of_count", lambda: X.count(b, ep).count(2 * b))
        th = 2 * U2 / 1e9
        u, f = u_of([th])
        add("find_support_forms", lambda: _call(X.find_support, [("min_gap", scalar_form(th * f, frng, stats, "dur_scalar")), ("time_units", u)], {}, frng, stats, "find_support"), lambda: X.find_support(th))
        add("find_support_int_gap", lambda: X.find_support(1), lambda: X.find_support(1.0))
        add("find_support_float32_gap", lambda: X.find_support(np.float32(th)))
        return out
    if name == "f_bin_average":
        D = data_of()
        for j in range(3):
            u, f = u_of([b])
            e2 = ep_form(nap, ep, frng, stats) if frng.random() < 0.7 else None
            pos = [("bin_size", scalar_form(b * f, frng, stats, "bin_scalar")), ("ep", e2), ("time_units", u)]
            _note(stats, "unit:" + u)
            add("forms_%d" % j, lambda pos=pos: _call(D.bin_average, pos, {}, frng, stats, "bin_average"), lambda e2=e2: D.bin_average(b, e2))
        add("int_bin", lambda: D.bin_average(1, ep), lambda: D.bin_average(1.0, ep))
        add("float32_bin", lambda: D.bin_average(np.float32(b), ep))
        add("np_int_bin_ms", lambda: D.bin_average(np.int64(1000), ep, "ms"), lambda: D.bin_average(1.0, ep))
        add("bin_wider_than_support", lambda: D.bin_average(1000.0))
        add("then_dropna", lambda: D.bin_average(b, ep).dropna())
        add("then_restrict_own", lambda: D.bin_average(b).restrict(D.time_support))
        return out
    if name == "f_value_from":
        for j in range(4):
            D = recast(nap, y, frng, stats, frng.choice(CLASSES[1:]))
            mode = frng.choice(["closest", "before", "after"])
            e2 = ep_form(nap, ep, frng, stats) if frng.random() < 0.7 else None
            pos = [("data", D), ("ep", e2)] + ([("mode", mode)] if mode != "closest" or frng.random() < 0.5 else [])
            _note(stats, "value_from_mode:" + mode)
            add("forms_%d" % j, lambda pos=pos: _call(X.value_from, pos, {}, frng, stats, "value_from"))
        add("self_as_data", lambda: data_of().value_from(data_of(), ep))
        D1 = data_of()
        add("same_live_object_twice", lambda: D1.value_from(D1))
        add("mode_wrong_case", lambda: X.value_from(D1, ep, "Closest"))         # ValueError, or a well-formed result
        return out
    if name == "f_interpolate":
        D = data_of()
        for j in range(3):
            T = recast(nap, y, frng, stats)
            e2 = ep_form(nap, ep, frng, stats) if frng.random() < 0.7 else None
            l_, r_ = frng.choice([None, 0, -1.5, np.float32(2)]), frng.choice([None, 0, 7.5, np.int64(3)])
            pos = [("ts", T), ("ep", e2), ("left", l_), ("right", r_)]
            add("forms_%d" % j, lambda pos=pos: _call(D.interpolate, pos, {}, frng, stats, "interpolate"), lambda T=T, e2=e2: D.interpolate(T, e2))
        add("onto_itself", lambda: D.interpolate(D))
        add("then_threshold", lambda: data_of("Tsd").interpolate(y, ep).threshold(2))
        return out
    if name == "f_threshold":
        for j in range(5):
            D = data_of("Tsd", content=frng.choice(["plain", "plain", "nan", "inf", "-inf", "all_equal", "zeros"]))
            m = frng.choice(["above", "below", "aboveequal", "belowequal"])
            thr = frng.choice([3, 3.0, 2.5, np.float32(2.5), np.int64(4), np.uint8(3), True, 0, -1, np.inf])
            pos = [("thr", thr)] + ([("method", m)] if m != "above" or frng.random() < 0.5 else [])
            _note(stats, "threshold_method:" + m, "thr_scalar:" + type(thr).__name__)
            add("forms_%d" % j, lambda D=D, pos=pos: _call(D.threshold, pos, {}, frng, stats, "threshold"))
        D = data_of("Tsd")
        for m in ("Above", "BELOW", "aboveEqual", " above", None, 1):
            add("method_not_accepted_%r" % (m,), lambda m=m: D.threshold(3, m))    # must raise, or give a well-formed result
        add("threshold_of_threshold", lambda: D.threshold(2).threshold(5, "below"))
        add("threshold_then_count", lambda: D.threshold(3, method="belowequal").count(b))
        return out
    if name == "f_dropna":
        for j in range(5):
            D = data_of(content=frng.choice(["nan", "nan", "inf", "-inf", "inf_and_-inf", "plain"]), dtypes=("float64", "float64", "float32"))
            flag = frng.choice([True, False])
            pos = [("update_time_support", flag)] if (not flag or frng.random() < 0.5) else []
            _note(stats, "dropna_update_time_support:" + str(flag))
            add("forms_%d" % j, lambda D=D, pos=pos: _call(D.dropna, pos, {}, frng, stats, "dropna"))
        Di = data_of(dtypes=("int64", "uint8", "bool", "int16"))
        add("integer_data", lambda: Di.dropna(), lambda: Di)
        add("integer_data_keep_support", lambda: Di.dropna(False), lambda: Di)
        add("flag_not_bool", lambda: Di.dropna(1))                              # TypeError, or a well-formed result
        D2 = data_of(content="nan", dtypes=("float64",))
        add("dropna_twice", lambda: D2.dropna().dropna(), lambda: D2.dropna())
        add("dropna_then_restrict", lambda: D2.dropna(update_time_support=False).restrict(ep))
        add("all_nan", lambda: (D2 * np.nan).dropna())
        add("all_nan_keep_support", lambda: (D2 * np.nan).dropna(update_time_support=False))
        return out
    if name == "f_convolve":
        kernels = [np.array([0.5, 0.5]), np.array([1, 2, 1]), np.array([0.25, 0.5, 0.25], dtype=np.float32), np.array([[1.0, 0.5], [0.5, 1.0]]), np.array([1.5]), np.array([True, True]),
                   np.ones(9) / 9, np.array([1, -1], dtype=np.int8)]
        for j in range(5):
            D = data_of()
            kr = frng.choice(kernels)
            tr = frng.choice(["both", "left", "right"])
            e2 = ep_form(nap, ep, frng, stats) if frng.random() < 0.5 else None
            pos = [("array", kr), ("ep", e2)] + ([("trim", tr)] if tr != "both" or frng.random() < 0.5 else [])
            _note(stats, "convolve_trim:" + tr, "kernel:%s%s" % (kr.dtype, "_2d" if kr.ndim == 2 else ""))
            add("forms_%d" % j, lambda D=D, pos=pos: _call(D.convolve, pos, {}, frng, stats, "convolve"), lambda D=D, e2=e2: D if e2 is None else D.restrict(e2))
        D = data_of()
        add("kernel_list", lambda: D.convolve([0.5, 0.5]))                       # not array-like: IOError, or a well-formed result
        add("trim_wrong_case", lambda: D.convolve(np.ones(2), trim="Left"))
        add("convolve_twice", lambda: D.convolve(np.array([0.5, 0.5])).convolve(np.array([1.0, 1.0]), trim="right"), lambda: D)
        return out
    if name == "f_smooth":
        D = data_of()
        sd = 3 * U2 / 1e9
        rate = float(D.rate) if len(D) and np.isfinite(D.rate) else 0.0

        def cheap(std_, ws_, sf_):
            """the gaussian kernel has rate * windowsize (or rate * std * size_factor) points: calls whose kernel would exceed 50000 points are not made (cost only)"""
            return rate * (ws_ if ws_ is not None else std_ * sf_) <= 50000
        for j in range(4):
            u, f = frng.choice(UNITS)
            ws = frng.choice([None, None, 9 * U2 / 1e9, 20 * U2 / 1e9])
            sf = frng.choice([100, 4, 2])
            nm = frng.choice([True, False])
            if not cheap(sd, ws, sf):
                _note(stats, "smooth_skipped_kernel_too_long")
                continue
            pos = [("std", sd * f), ("windowsize", None if ws is None else ws * f), ("time_units", u), ("size_factor", sf), ("norm", nm)]
            _note(stats, "unit:" + u, "smooth_windowsize:" + ("default" if ws is None else "given"), "smooth_norm:" + str(nm))
            add("forms_%d" % j, lambda pos=pos: _call(D.smooth, pos, {}, frng, stats, "smooth"), lambda: D)
        if cheap(1.0, None, 100):
            add("int_std", lambda: D.smooth(1), lambda: D)
        if cheap(sd, None, 4):
            add("std_ms_keyword_only", lambda: D.smooth(std=sd * 1e3, time_units="ms", size_factor=4), lambda: D)
        return out
    if name == "f_numpy":
        D = data_of()
        sc = frng.choice([2, 2.5, -1, 300, True, np.float32(0.5), np.int8(3), np.uint8(200)])
        _note(stats, "scalar_operand:" + type(sc).__name__)
        for nm_, f_ in (("add", lambda: D + sc), ("radd", lambda: sc + D), ("sub", lambda: D - sc), ("rsub", lambda: sc - D), ("mul", lambda: D * sc), ("truediv", lambda: D / 2),
                        ("floordiv", lambda: D // 2), ("mod", lambda: D % 2), ("pow", lambda: D ** 2), ("neg", lambda: -D), ("lt", lambda: D < sc), ("eq", lambda: D == sc),
                        ("np_add_kw", lambda: np.add(D, sc, dtype=np.float64)), ("np_multiply_array", lambda: np.multiply(D, np.asarray(D.values))),
                        ("modf", lambda: list(np.modf(D))), ("divmod", lambda: list(np.divmod(D, 2))), ("square_then_sqrt", lambda: np.sqrt(np.square(D)))):
            add("ufunc_" + nm_, f_, (lambda: [D, D]) if nm_ in ("modf", "divmod") else (lambda: D))
        for nm_, fk, fp in (("cumsum", lambda: np.cumsum(D, axis=0), lambda: np.cumsum(D, 0)), ("flip", lambda: np.flip(D, axis=0), lambda: np.flip(D, 0)),
                            ("roll", lambda: np.roll(D, shift=1, axis=0), lambda: np.roll(D, 1, 0)), ("diff", lambda: np.diff(D, n=1, axis=0), lambda: np.diff(D, 1, 0)),
                            ("take", lambda: np.take(D, indices=[0], axis=0), lambda: np.take(D, [0], 0)), ("delete", lambda: np.delete(D, obj=0, axis=0), lambda: np.delete(D, 0, 0)),
                            ("repeat", lambda: np.repeat(D, repeats=2, axis=0), lambda: np.repeat(D, 2, 0)), ("sum_last", lambda: np.sum(D, axis=-1), lambda: np.sum(D, -1)),
                            ("mean_keepdims", lambda: np.mean(D, axis=0, keepdims=True), lambda: np.mean(D, 0, None, None, True)),
                            ("sort_axis0", lambda: np.sort(D, axis=0), lambda: np.sort(D, 0)), ("moveaxis", lambda: np.moveaxis(D, 0, -1), lambda: np.moveaxis(D, source=0, destination=-1)),
                            ("swapaxes", lambda: np.swapaxes(D, 0, -1), lambda: np.swapaxes(D, axis1=0, axis2=-1)), ("method_form", lambda: D.cumsum(axis=0), lambda: D.cumsum(0))):
            add("axis_keyword_" + nm_, fk)
            add("axis_positional_" + nm_, fp)
        add("astype_like", lambda: np.asarray(D).sum() * 0 + D)
        add("where_three_args", lambda: np.where(D > 2, D, -D))
        add("clip_keywords", lambda: np.clip(D, a_min=1, a_max=3))
        add("nan_to_num_kw", lambda: np.nan_to_num(D, nan=0.0, posinf=1.0, neginf=-1.0), lambda: D)
        add("isfinite_then_index", lambda: D[np.isfinite(D)] if D.ndim == 1 else D[np.all(np.isfinite(D.values).reshape(len(D), -1), 1)])
        return out
    if name == "f_concat_split":
        D = data_of()
        m = len(D)
        a_, b_, c_ = D[: m // 3], D[m // 3: 2 * m // 3], D[2 * m // 3:]
        add("three_operands", lambda: np.concatenate((a_, b_, c_)))
        add("three_operands_list", lambda: np.concatenate([a_, b_, c_], axis=0))
        add("three_operands_axis_positional", lambda: np.concatenate((a_, b_, c_), 0))
        add("three_operands_by_get", lambda: np.concatenate((D.get(t0 - 1, t0), D.get(t0 + U2 / 2e9, t1 - U2 / 2e9), D.get(t1, t1 + 1))) if m >= 3 and t0 < t1 else None)
        add("vstack_three", lambda: np.vstack((a_, b_, c_)) if D.ndim > 1 else None)
        add("vstack_kw_tup", lambda: np.vstack(tup=(a_, c_)) if D.ndim > 1 else None)
        add("hstack_1d_three", lambda: np.hstack((a_, b_, c_)) if D.ndim == 1 else np.hstack((D, D, D)))
        add("dstack", lambda: np.dstack((D, D)) if D.ndim == 3 else None)
        add("concatenate_last_axis_kw", lambda: np.concatenate((D, D, D), axis=-1) if D.ndim > 1 else None, lambda: D if D.ndim > 1 else None)
        add("concatenate_axis1_positional", lambda: np.concatenate((D, D), 1) if D.ndim > 1 else None, lambda: D if D.ndim > 1 else None)
        add("same_object_twice_axis0", lambda: np.concatenate((D, D)))            # overlapping indexes: RuntimeError, or well formed
        add("other_dtype_operands", lambda: np.concatenate((a_, (b_ * 1).astype(np.float32) if hasattr(b_, "astype") else b_, c_)))
        add("split_indices_list", lambda: list(np.split(D, [1, 2])))
        add("split_indices_array_kw", lambda: list(np.split(D, indices_or_sections=np.array([1]), axis=0)))
        add("array_split_kw", lambda: list(np.array_split(D, indices_or_sections=3, axis=0)))
        add("array_split_positional_axis", lambda: list(np.array_split(D, 2, 0)))
        add("array_split_negative_axis", lambda: list(np.array_split(D, 2, axis=-D.ndim)))
        add("vsplit", lambda: list(np.vsplit(D, [1])) if D.ndim > 1 else None)
        add("hsplit_columns", lambda: list(np.hsplit(D, [1])) if D.ndim > 1 else None)
        add("split_then_concatenate", lambda: np.concatenate(np.array_split(D, 3)), lambda: D if m >= 1 and not np.any(np.diff(np.asarray(D.t)) <= 0) else None)
        add("more_sections_than_rows", lambda: list(np.array_split(D, m + 2)))
        return out
    return group_form_calls(R, name, rng, frng, X, x, y, ep, b, t0, t1, onl, cls, add, out, data_of, u_of, stats)


def _seeded(np_seed, f):
    """f run under a fixed numpy global seed (the randomisation functions draw from numpy's global generator); the caller's generator state is restored"""
    def w():
        st = np.random.get_state()
        np.random.seed(np_seed)
        try:
            return f()
        finally:
            np.random.set_state(st)
    return w


def group_form_calls(R, name, rng, frng, X, x, y, ep, b, t0, t1, onl, cls, add, out, data_of, u_of, stats):
    import pandas as pd
    nap = R.nap
    tx, ty = np.asarray(x.t), np.asarray(y.t)
    n = len(X)
    groups = [o for o in R.objs + R.extra if isinstance(o, nap.TsGroup)]
    sup = x.time_support.union(y.time_support)
    KEYSETS = ([0, 1, 2], [4, 1, 9], [10, 2, 33], ["10", "2", "33"], ["7", "0", "12"], [1.0, 3.0, 2.0], [np.int64(5), np.int32(2), np.uint8(8)], [0, "1", 2.0], [100, 20, 3])

    def members(keys, kind):
        """three members (x, y, every other sample of x) under the drawn keys, as objects or raw arrays"""
        ts3 = [tx, ty, tx[::2]]
        if kind == "objects":
            return {k: recast(nap, nap.Ts(t, time_support=sup), frng, stats, frng.choice(("Ts", "Tsd"))) for k, t in zip(keys, ts3)}
        if kind == "ts_default_support":
            return {k: nap.Ts(t) for k, t in zip(keys, ts3)}
        if kind == "arrays":
            return {k: t.copy() for k, t in zip(keys, ts3)}
        return {k: [float(v) for v in t] for k, t in zip(keys, ts3)}

    def a_group():
        if groups and frng.random() < 0.6:
            return rng.choice(groups)
        return nap.TsGroup({3: nap.Ts(tx), 8: nap.Ts(ty), 1: nap.Ts(tx[::2])}, time_support=sup, metadata={"lab": [1, 2, 3]})

    if name == "f_group_ctor":
        for j in range(4):
            keys = frng.choice(KEYSETS)
            kind = frng.choice(["objects", "objects", "ts_default_support", "arrays", "lists"])
            tsup = frng.choice(["explicit", "explicit", "default", "other"])
            S = {"explicit": sup, "default": None, "other": ep}[tsup]
            bypass = kind == "objects" and tsup == "explicit" and frng.random() < 0.4     # members already carry the support: the documented use of bypass_check
            meta = frng.choice([None, {"lab": [5, 6, 7]}, pd.DataFrame({"lab": [5, 6, 7], "name": ["a", "b", "c"]}, index=sorted(int(float(k)) for k in keys))])
            as_list = frng.random() < 0.15
            _note(stats, "group_keys:" + "/".join(sorted(set(type(k).__name__ for k in keys))) + ("_unsorted" if [int(float(k)) for k in keys] != sorted(int(float(k)) for k in keys) else ""),
                  "group_members:" + kind, "group_support:" + tsup, "group_bypass_check:" + str(bypass), "group_metadata:" + ("none" if meta is None else type(meta).__name__),
                  "group_data:" + ("list" if as_list else "dict"))

            def build(keys=keys, kind=kind, S=S, bypass=bypass, meta=meta, as_list=as_list, unit=("s", 1.0)):
                mem = members(keys, kind)
                if unit[0] != "s":
                    mem = {k: (np.asarray(v) * unit[1] if kind == "arrays" else [q * unit[1] for q in v]) for k, v in mem.items()}
                data = list(mem.values()) if as_list else mem
                if as_list and isinstance(meta, pd.DataFrame):
                    meta = {"lab": [5, 6, 7]}
                pos = [("data", data), ("time_support", S), ("time_units", unit[0]), ("bypass_check", bypass), ("metadata", meta)]
                return _call(nap.TsGroup, pos, {}, frng, stats, "TsGroup")
            add("forms_%d" % j, build, (lambda keys=keys, S=S: nap.TsGroup({int(float(k)): nap.Ts(t) for k, t in zip(keys, [tx, ty, tx[::2]])}, time_support=S)) if not as_list and (S is not None or kind != "objects") else None)
            if kind in ("arrays", "lists") and onl and on_lattice(ty) and S is not None and not as_list:
                u = frng.choice(UNITS[1:])
                _note(stats, "group_raw_members_unit:" + u[0])
                add("raw_members_%s_%d" % (u[0], j), lambda build=build, u=u: build(unit=u), lambda keys=keys, S=S: nap.TsGroup({int(float(k)): nap.Ts(t) for k, t in zip(keys, [tx, ty, tx[::2]])}, time_support=S))
        add("one_member", lambda: nap.TsGroup({7: nap.Ts(tx)}, time_support=sup))
        add("with_empty_member", lambda: nap.TsGroup({0: nap.Ts(tx), 1: nap.Ts(np.array([])), 2: nap.Ts(ty)}, time_support=sup))
        add("with_empty_member_default_support", lambda: nap.TsGroup({2: nap.Ts(tx), 5: nap.Ts(np.array([]))}))
        add("same_live_member_twice", lambda: nap.TsGroup({0: X, 1: X}, time_support=X.time_support) if len(X.time_support) else None)
        add("group_of_group_members", lambda: nap.TsGroup(dict(a_group().items()), time_support=ep))
        add("float_key_not_integer", lambda: nap.TsGroup({0.5: nap.Ts(tx)}, time_support=sup))               # ValueError, or well formed
        add("time_support_not_intervalset", lambda: nap.TsGroup({0: nap.Ts(tx)}, time_support=sup.values))   # TypeError, or well formed
        return out
    if name == "f_group_empty":
        # the EMPTY group (no member) with every unit, and every operation on it
        for u in ("s", "ms", "us"):
            add("ctor_%s" % u, lambda u=u: nap.TsGroup({}, time_support=ep, time_units=u), lambda: nap.TsGroup({}, time_support=ep))
            add("ctor_list_%s" % u, lambda u=u: nap.TsGroup([], ep, u), lambda: nap.TsGroup({}, time_support=ep))
        add("ctor_bypass_metadata", lambda: nap.TsGroup({}, time_support=ep, bypass_check=True, metadata=None))
        add("ctor_no_support", lambda: nap.TsGroup({}))                                                      # RuntimeError (empty union), or well formed
        g0 = nap.TsGroup({}, time_support=ep)
        for u, f in UNITS:
            if u != "s" and not onl:
                continue
            add("count_%s" % u, lambda u=u, f=f: g0.count(b * f, time_units=u), lambda: g0.count(b))
            add("count_ep_%s" % u, lambda u=u, f=f: g0.count(b * f, X.time_support, u, np.int16), lambda: g0.count(b, X.time_support))
            add("get_%s" % u, lambda u=u, f=f: g0.get(t0 * f, t1 * f, u), lambda: g0.get(t0, t1))
        add("count_no_bin", lambda: g0.count())
        add("restrict", lambda: g0.restrict(X.time_support))
        add("to_tsd", lambda: g0.to_tsd())
        add("value_from", lambda: g0.value_from(data_of("Tsd")))
        add("merge_with_itself", lambda: nap.TsGroup.merge_group(g0, g0, reset_index=True))
        add("merge_with_nonempty", lambda: g0.merge(nap.TsGroup({4: nap.Ts(tx)}, time_support=ep)))
        add("merge_reset_time_support", lambda: nap.TsGroup.merge_group(g0, nap.TsGroup({4: nap.Ts(tx)}, time_support=sup), reset_time_support=True))
        add("index_empty_list", lambda: g0[[]])
        add("getby_threshold", lambda: g0.getby_threshold("rate", 0.0))
        for fn in ("shift_timestamps", "resample_timestamps", "shuffle_ts_intervals"):
            add(fn, _seeded(1, lambda fn=fn: getattr(nap, fn)(g0)))
        add("jitter_timestamps_keep", _seeded(1, lambda: nap.jitter_timestamps(g0, 0.01, True)))
        add("perievent", lambda: nap.compute_perievent(g0, nap.Ts(tx), 0.1))
        # series without samples, every unit, through the same calls
        for c in CLASSES:
            u = frng.choice(("s", "ms", "us"))
            K = getattr(nap, c)
            dd = {"Ts": None, "Tsd": np.array([]), "TsdFrame": np.zeros((0, 2)), "TsdTensor": np.zeros((0, 2, 2))}[c]
            add("empty_%s_%s" % (c, u), (lambda K=K, u=u, dd=dd: K(np.array([]), time_units=u, time_support=ep) if dd is None else K(np.array([]), dd, time_units=u, time_support=ep)))
            add("empty_%s_list_%s" % (c, u), (lambda K=K, u=u, dd=dd: K([], u) if dd is None else K([], dd, u)))
            add("empty_%s_ops" % c, (lambda K=K, u=u, dd=dd: [z for e in [(K(np.array([]), time_units=u) if dd is None else K(np.array([]), dd, time_units=u))]
                                                             for z in each(lambda: e.restrict(ep), lambda: e.count(b, ep), lambda: e.count(ep=ep), lambda: e.get(t0, t1), lambda: e[0:0], lambda: e.copy(),
                                                                           lambda: e.value_from(data_of("Tsd"), ep), lambda: e.count(b * 1e3, ep, "ms"))]))
        return out
    if name == "f_group_ops":
        g = a_group()
        ks = list(g.keys())
        u, f = u_of([b])
        dt = frng.choice([None, np.int64, np.float64, "int16", np.uint8])
        e2 = ep_form(nap, ep, frng, stats) if frng.random() < 0.7 else None
        pos = [("bin_size", scalar_form(b * f, frng, stats, "bin_scalar", npint=False)), ("ep", e2), ("time_units", u), ("dtype", dt)]
        _note(stats, "unit:" + u)
        add("count_forms", lambda: _call(g.count, pos, {}, frng, stats, "group_count"), lambda: g.count(b, e2))
        add("count_no_bin_positional_none", lambda: g.count(None, ep), lambda: g.count(ep=ep))
        u2, f2 = u_of([t0, t1])
        add("get_forms", lambda: _call(g.get, [("start", scalar_form(t0 * f2, frng, stats, "get_scalar")), ("end", scalar_form(t1 * f2, frng, stats, "get_scalar")), ("time_units", u2)], {}, frng, stats, "group_get"),
            lambda: g.get(t0, t1))
        add("get_nearest", lambda: g.get(t0))
        add("restrict_forms", lambda: _call(g.restrict, [("ep", ep_form(nap, ep, frng, stats))], {}, frng, stats, "group_restrict"), lambda: g.restrict(ep))
        add("restrict_twice", lambda: g.restrict(ep).restrict(ep), lambda: g.restrict(ep))
        mode = frng.choice(["closest", "before", "after"])
        add("value_from_forms", lambda: _call(g.value_from, [("tsd", data_of(frng.choice(["Tsd", "TsdFrame"]))), ("ep", e2), ("mode", mode)], {}, frng, stats, "group_value_from"))
        add("index_key_list_unsorted", lambda: g[ks[::-1]], lambda: g[ks])
        add("index_np_array_keys", lambda: g[np.array(ks[:2])], lambda: g[ks[:2]])
        add("index_bool_list", lambda: g[[i % 2 == 0 for i in range(len(ks))]], lambda: g[np.arange(len(ks)) % 2 == 0])
        add("index_np_int_key", lambda: g[np.int64(ks[0])] if ks else None, lambda: g[ks[0]] if ks else None)
        add("index_one_key_list", lambda: g[[ks[-1]]] if ks else None)
        add("getby_threshold_ops", lambda: [g.getby_threshold("rate", float(np.nanmedian(g.rate)), op) for op in (">", "<", ">=", "<=")] if ks else None)
        add("getby_intervals", lambda: list(g.getby_intervals("rate", np.array([0.0, float(np.nanmedian(g.rate)) + 1, 1e9]))) if ks else None)
        add("getby_category", lambda: list(g.getby_category("lab").values()) if "lab" in g.metadata_columns else None)
        add("trial_count_unit", lambda: g.count(b, ep).get(t0, t1))
        add("members_then_group", lambda: nap.TsGroup({k: g[k] for k in ks}, time_support=g.time_support, bypass_check=True), lambda: g[ks] if ks else None)
        return out
    if name == "f_merge":
        g = a_group()
        h = nap.TsGroup({21: nap.Ts(ty), 20: nap.Ts(tx[1:])}, time_support=g.time_support, metadata={c: [0] * 2 for c in g.metadata_columns if c != "rate"})
        k3 = nap.TsGroup({"40": nap.Ts(tx[::3])}, time_support=g.time_support, metadata={c: [0] for c in g.metadata_columns if c != "rate"})
        hd = nap.TsGroup({21: nap.Ts(ty), 20: nap.Ts(tx[1:])}, time_support=ep)
        dis = not (set(g.keys()) & {20, 21, 40})
        if dis:
            add("three_operands", lambda: nap.TsGroup.merge_group(g, h, k3))
            add("three_operands_method", lambda: g.merge(h, k3), lambda: nap.TsGroup.merge_group(g, h, k3))
            add("three_operands_order", lambda: nap.TsGroup.merge_group(k3, g, h))
        for ri in (False, True):
            for rt in (False, True):
                for im in (False, True):
                    if not ri and not dis:
                        continue
                    add("three_flags_ri%d_rt%d_im%d" % (ri, rt, im), lambda ri=ri, rt=rt, im=im: nap.TsGroup.merge_group(g, h, k3, reset_index=ri, reset_time_support=rt, ignore_metadata=im))
                    add("other_support_ri%d_rt%d_im%d" % (ri, rt, im), lambda ri=ri, rt=rt, im=im: g.merge(hd, k3, reset_index=ri, reset_time_support=rt, ignore_metadata=im))
        add("itself_three_times", lambda: nap.TsGroup.merge_group(g, g, g, reset_index=True, ignore_metadata=True))
        def single():
            import contextlib
            import io
            with contextlib.redirect_stdout(io.StringIO()):          # (merge_group prints a notice when given one operand)
                return nap.TsGroup.merge_group(g)
        add("single_operand", single, lambda: g)
        add("merge_then_restrict", lambda: g.merge(h, reset_index=True, ignore_metadata=True).restrict(ep))
        return out
    if name == "f_to_tsd_tsgroup":
        g = a_group()
        m = len(g)
        add("to_tsd_list", lambda: g.to_tsd(list(range(m))), lambda: g.to_tsd())
        add("to_tsd_array_int", lambda: g.to_tsd(np.arange(m, dtype=np.uint8)), lambda: g.to_tsd())
        add("to_tsd_series", lambda: g.to_tsd(pd.Series(index=g.index, data=np.arange(m) * 0.5)), lambda: g.to_tsd())
        add("to_tsd_metadata_rate", lambda: g.to_tsd("rate"), lambda: g.to_tsd())
        add("to_tsd_then_to_tsgroup", lambda: g.to_tsd().to_tsgroup())
        for dt in ("float64", "float32", "int64", "int8", "uint8", "bool"):
            lab = nap.Tsd(tx, (np.arange(len(tx)) % 3).astype(dt), time_support=X.time_support)
            add("to_tsgroup_labels_" + dt, lambda lab=lab: lab.to_tsgroup())
        add("to_tsgroup_negative_labels", lambda: nap.Tsd(tx, (np.arange(len(tx)) % 3) - 1.0, time_support=X.time_support).to_tsgroup())
        add("to_tsgroup_large_labels", lambda: nap.Tsd(tx, (np.arange(len(tx)) % 2) * 1000 + 7, time_support=X.time_support).to_tsgroup())
        add("to_tsgroup_restricted", lambda: nap.Tsd(tx, np.arange(len(tx)) % 2, time_support=X.time_support).restrict(ep).to_tsgroup())
        add("fillna_int", lambda: recast(nap, X, frng, stats, "Ts").fillna(1))
        return out
    if name == "f_random":
        T = recast(nap, x, frng, stats, "Ts")
        g = a_group()
        sd = rng.randrange(2 ** 31)
        L = float(T.time_support.tot_length()) if len(T.time_support) else 1.0
        j1 = U2 / 1e9
        for tag, o in (("ts", T), ("group", g)):
            add("shift_positional@" + tag, _seeded(sd, lambda o=o: nap.shift_timestamps(o, 0.0, L / 2)), _seeded(sd, lambda o=o: nap.shift_timestamps(o, min_shift=0.0, max_shift=L / 2)))
            add("shift_defaults@" + tag, _seeded(sd, lambda o=o: nap.shift_timestamps(o)), _seeded(sd, lambda o=o: nap.shift_timestamps(ts=o, min_shift=0.0, max_shift=None)))
            add("shift_int_bounds@" + tag, _seeded(sd, lambda o=o: nap.shift_timestamps(o, 0, 1)), _seeded(sd, lambda o=o: nap.shift_timestamps(o, 0.0, 1.0)))
            add("jitter_positional_keep@" + tag, _seeded(sd, lambda o=o: nap.jitter_timestamps(o, j1, True)), _seeded(sd, lambda o=o: nap.jitter_timestamps(o, max_jitter=j1, keep_tsupport=True)))
            add("jitter_np_scalar@" + tag, _seeded(sd, lambda o=o: nap.jitter_timestamps(o, np.float32(j1), keep_tsupport=True)), _seeded(sd, lambda o=o: nap.jitter_timestamps(o, j1, keep_tsupport=True)))
            add("resample_keyword@" + tag, _seeded(sd, lambda o=o: nap.resample_timestamps(ts=o)), _seeded(sd, lambda o=o: nap.resample_timestamps(o)))
            if not (tag == "ts" and len(T) and float(T.t[0]) == float(T.t[-1])):    # (a Ts of one instant: the zero-span quirk recorded under the families shuffle / jitter)
                add("shuffle_keyword@" + tag, _seeded(sd, lambda o=o: nap.shuffle_ts_intervals(ts=o)), _seeded(sd, lambda o=o: nap.shuffle_ts_intervals(o)))
            add("shift_then_restrict@" + tag, _seeded(sd, lambda o=o: nap.shift_timestamps(o).restrict(ep)))
            add("resample_then_count@" + tag, _seeded(sd, lambda o=o: nap.resample_timestamps(o).count(b)))
        add("shift_data_carrying_class", _seeded(sd, lambda: nap.shift_timestamps(data_of("Tsd"))))              # not a Ts: TypeError, or well formed
        return out
    if name == "f_perievent":
        ref = recast(nap, nap.Ts(tx[::2], time_support=x.time_support), frng, stats)
        XF, X = X, (X if cls in ("Ts", "Tsd") else recast(nap, X, frng, stats, frng.choice(("Ts", "Tsd"))))
        w = 2 * U2 / 1e9
        D = data_of()
        g = a_group()
        for j in range(3):
            u, f = frng.choice(UNITS)
            mm = frng.choice([(-w * f, w * f), (w * f, 2 * w * f), w * f, (0, w * f), (np.float64(w * f), w * f), 1])
            _note(stats, "unit:" + u, "minmax:" + ("scalar" if not isinstance(mm, tuple) else "tuple"))
            add("events_forms_%d" % j, lambda mm=mm, u=u: _call(nap.compute_perievent, [("timestamps", X), ("tref", ref), ("minmax", mm), ("time_unit", u)], {}, frng, stats, "perievent"))
            add("continuous_forms_%d" % j, lambda mm=mm, u=u: _call(nap.compute_perievent_continuous, [("timeseries", D), ("tref", ref), ("minmax", mm), ("ep", frng.choice([None, ep])), ("time_unit", u)],
                                                                    {}, frng, stats, "perievent_continuous"))
        add("events_class_" + cls, lambda: nap.compute_perievent(XF, ref, w))
        add("events_group_input", lambda: nap.compute_perievent(g, ref, (w, w)))
        add("events_group_input_ms", lambda: nap.compute_perievent(timestamps=g, tref=ref, minmax=w * 1e3, time_unit="ms"), lambda: nap.compute_perievent(g, ref, w))
        add("events_then_count", lambda: nap.compute_perievent(X, ref, w).count(w / 2))
        add("events_then_to_tsd", lambda: nap.compute_perievent(X, ref, w).to_tsd())
        add("continuous_then_restrict", lambda: nap.compute_perievent_continuous(D, ref, w).restrict(nap.IntervalSet(0, w)))
        add("time_unit_not_accepted", lambda: nap.compute_perievent(X, ref, w, "MS"))                            # RuntimeError, or well formed
        return out
    if name == "f_setops":
        eps = [o for o in R.objs + R.extra if isinstance(o, nap.IntervalSet)] or [ep]
        e1, e2 = rng.choice(eps), rng.choice(eps)
        for opn in ("union", "intersect", "set_diff"):
            add(opn + "_forms", lambda opn=opn: _call(getattr(ep_form(nap, e1, frng, stats), opn), [("a", ep_form(nap, e2, frng, stats))], {}, frng, stats, "setop"), lambda opn=opn: getattr(e1, opn)(e2))
            add(opn + "_with_itself", lambda opn=opn: getattr(e1, opn)(e1))
            add(opn + "_with_empty", lambda opn=opn: [getattr(e1, opn)(nap.IntervalSet([], [])), getattr(nap.IntervalSet(start=[], end=[]), opn)(e1)])
            add(opn + "_three_way", lambda opn=opn: getattr(getattr(e1, opn)(e2), opn)(ep))
        th = 2 * U2 / 1e9
        for opn in ("drop_short_intervals", "drop_long_intervals", "merge_close_intervals"):
            u, f = u_of([th]) if on_lattice(e1.values) else UNITS[0]
            add(opn + "_forms", lambda opn=opn, u=u, f=f: _call(getattr(e1, opn), [("threshold", scalar_form(th * f, frng, stats, "dur_scalar")), ("time_units", u)], {}, frng, stats, "dur_op"),
                lambda opn=opn: getattr(e1, opn)(th))
        add("split_forms", lambda: e1.split(4 * U2 / 1e6, "ms") if on_lattice(e1.values) else None, lambda: e1.split(4 * U2 / 1e9) if on_lattice(e1.values) else None)
        add("split_keyword", lambda: e1.split(interval_size=4 * U2 / 1e9, time_units="s"), lambda: e1.split(4 * U2 / 1e9))
        add("index_int", lambda: e1[0])
        add("index_negative", lambda: e1[-1])
        add("index_slice", lambda: e1[::2])
        add("index_list_unsorted", lambda: e1[[len(e1) - 1, 0]])
        add("index_bool", lambda: e1[np.arange(len(e1)) % 2 == 0])
        add("index_tuple", lambda: e1[0:1, :] if len(e1) else None)
        add("time_span", lambda: e1.time_span() if len(e1) else None)
        add("as_support_of_series", lambda: each(lambda: recast(nap, X, frng, stats, sup=e1.union(e2)), lambda: X.restrict(e1.intersect(e2)), lambda: X.restrict(e1.set_diff(e2))))
        add("ctor_malformed_forms", lambda: each(lambda: nap.IntervalSet([3.0, 1.0], [4.0, 2.0]), lambda: nap.IntervalSet(start=(1, 2), end=(3, 4)), lambda: nap.IntervalSet(np.array([[1, 2], [2, 3]])),
                                                 lambda: nap.IntervalSet(pd.DataFrame({"start": [2.0, 0.0], "end": [3.0, 1.0], "lab": [1, 2]})), lambda: nap.IntervalSet(5, 5),
                                                 lambda: nap.IntervalSet(1e3, 2e3, "ms", {"a": [1]}), lambda: nap.IntervalSet(np.array([2, 1], dtype=np.uint8), np.array([4, 3], dtype=np.uint8))))
        return out
    if name == "f_saveload":
        import os
        import tempfile
        objs = [X, ep, a_group()]
        def roundtrip(o):
            d = tempfile.mkdtemp(prefix="wd_C04_")
            try:
                p = os.path.join(d, "obj.npz")
                o.save(p)
                return nap.load_file(p)
            finally:
                for fn in os.listdir(d):
                    os.remove(os.path.join(d, fn))
                os.rmdir(d)
        zs = bool(n >= 1 and float(tx[0]) == float(tx[-1]) and len(X.time_support) == 0)
        add("series", lambda: roundtrip(X) if not zs else None, lambda: X if not zs else None)
        add("intervalset", lambda: roundtrip(ep), lambda: ep)
        add("group", lambda: roundtrip(objs[2]), lambda: objs[2])
        add("series_then_restrict_count", lambda: [z for l in [roundtrip(X)] for z in (l.restrict(ep), l.count(b, ep), l.get(t0, t1))] if not zs else None,
            lambda: [X.restrict(ep), X.count(b, ep), X.get(t0, t1)] if not zs else None)
        add("group_then_restrict", lambda: roundtrip(objs[2]).restrict(ep), lambda: objs[2].restrict(ep))
        return out
    if name == "f_placement":
        # the same series translated (negative times, across 0, 1e5 s) and mirrored, through the core operations
        if not (on_lattice(tx) and on_lattice(X.time_support.values) and on_lattice(ep.values)):
            return out
        for tag, sh in (("negative", -(np.ceil(abs(t1)) + 2.0)), ("across_zero", -(t0 + t1) / 2 if on_lattice([(t0 + t1) / 2]) else -t0 - U2 / 1e9), ("plus_1e5", 1e5)):
            S = nap.IntervalSet(X.time_support.start + sh, X.time_support.end + sh)
            E = nap.IntervalSet(ep.start + sh, ep.end + sh)
            Z = make_series(nap, cls, tx + sh, frng, S, stats)
            _note(stats, "placement:" + tag)

            def back(o, sh=sh):
                """the result translated back"""
                if isinstance(o, nap.IntervalSet):
                    return nap.IntervalSet(o.start - sh, o.end - sh)
                return nap.Ts(np.asarray(o.t) - sh, time_support=nap.IntervalSet(o.time_support.start - sh, o.time_support.end - sh))
            add("ctor@" + tag, lambda Z=Z: Z)
            add("restrict@" + tag, lambda Z=Z, E=E: Z.restrict(E))
            add("restrict_translated_back@" + tag, lambda Z=Z, E=E, back=back: back(Z.restrict(E)), lambda: X.restrict(ep))
            add("count@" + tag, lambda Z=Z, E=E: Z.count(b, E))
            add("count_translated_back@" + tag, lambda Z=Z, E=E, back=back: back(Z.count(b, E)), lambda: X.count(b, ep))
            add("get@" + tag, lambda Z=Z, sh=sh: Z.get(t0 + sh, t1 + sh))
            add("get_translated_back@" + tag, lambda Z=Z, sh=sh, back=back: back(Z.get(t0 + sh, (t0 + t1) / 2 + sh)), lambda: X.get(t0, (t0 + t1) / 2))
            add("default_support@" + tag, lambda sh=sh: make_series(nap, cls, tx + sh, frng, None, stats) if n >= 2 and tx[0] != tx[-1] else None)
            add("units@" + tag, lambda sh=sh, S=S: nap.Ts((tx + sh) * 1e3, "ms", S), lambda Z=Z: Z)
            add("find_support@" + tag, lambda Z=Z: Z.find_support(2 * U2 / 1e9))
            if cls != "Ts":
                add("bin_average@" + tag, lambda Z=Z, E=E: Z.bin_average(b, E))
                add("dropna@" + tag, lambda Z=Z: Z.dropna())
                add("convolve@" + tag, lambda Z=Z, E=E: Z.convolve(np.array([0.5, 0.5]), E))
                add("interpolate@" + tag, lambda Z=Z, E=E: Z.interpolate(nap.Ts(ty + sh), E))
            if cls == "Tsd":
                add("threshold@" + tag, lambda Z=Z: Z.threshold(2.5))
                add("to_tsgroup@" + tag, lambda Z=Z: Z.to_tsgroup())
            add("group@" + tag, lambda Z=Z, sh=sh, S=S: nap.TsGroup({0: nap.Ts(tx + sh), 1: nap.Ts(ty + sh)}, time_support=S).restrict(E))
        return out
    if name == "f_chain":
        # multi-step histories: a result fed to the next operation, every step's object checked
        D = data_of()

        def chain(*fs):
            def w():
                objs, o = [], D
                for f in fs:
                    try:
                        o = f(o)
                    except Exception:
                        break
                    objs.append(o)
                return objs
            return w
        steps = {
            "restrict": lambda o: o.restrict(ep), "slice": lambda o: o[1:], "step2": lambda o: o[::2], "get": lambda o: o.get(t0, (t0 + t1) / 2), "times2": lambda o: o * 2,
            "abs": lambda o: np.abs(o), "cumsum": lambda o: np.cumsum(o, axis=0), "count": lambda o: o.count(b), "bin_average": lambda o: o.bin_average(b),
            "dropna": lambda o: o.dropna(), "dropna_keep": lambda o: o.dropna(update_time_support=False), "convolve": lambda o: o.convolve(np.array([0.5, 0.5])),
            "interpolate": lambda o: o.interpolate(y), "value_from": lambda o: y.value_from(o), "copy": lambda o: o.copy(), "own_support": lambda o: o.restrict(o.time_support),
            "first_column": lambda o: o[:, 0] if o.ndim > 1 else o, "find_support_restrict": lambda o: o.restrict(o.find_support(2 * U2 / 1e9)),
            "concat_halves": lambda o: np.concatenate((o[: len(o) // 2], o[len(o) // 2:])), "astype_f32": lambda o: o.__class__(o.t, np.asarray(o.values, dtype=np.float32), time_support=o.time_support),
        }
        names = sorted(steps)
        for j in range(6):
            seq = [frng.choice(names) for _ in range(frng.randint(2, 4))]
            _note(stats, "chain_length:%d" % len(seq))
            add("chain_%d:%s" % (j, ">".join(seq)), chain(*[steps[s] for s in seq]))
        add("same_live_object_twice", lambda: each(lambda: D.restrict(ep), lambda: D.restrict(ep), lambda: np.concatenate((D.get(t0, t0), D.get(t1, t1))) if t0 < t1 else None, lambda: D.value_from(D),
                                                   lambda: D.interpolate(D), lambda: np.hstack((D, D)) if D.ndim > 1 else None))
        shared = np.arange(2 * len(D), dtype=np.float64)
        add("operands_sharing_memory", lambda: each(lambda: nap.Tsd(np.asarray(D.t), shared[: len(D)], time_support=D.time_support), lambda: nap.Tsd(np.asarray(D.t), shared[::2], time_support=D.time_support),
                                                    lambda: nap.Tsd(D.index, shared[len(D):], time_support=D.time_support).restrict(ep),
                                                    lambda: np.concatenate((nap.Tsd(np.asarray(D.t), shared[: len(D)])[: len(D) // 2], nap.Tsd(np.asarray(D.t), shared[: len(D)])[len(D) // 2:]))))
        return out
    return out


FORM_FAMILY_SET = frozenset(FORM_FAMILIES)
