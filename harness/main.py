"""Entry point: ./check Cxx [--tier quick|thorough] [--replay file]
Exit 0 = property held on everything explored (known findings are printed, not failed);
exit 1 + 'VIOLATION property=<id> replay=<path>' otherwise."""
import argparse
import importlib
import json
import os
import sys
import time
import traceback

sys.path.insert(0, os.path.dirname(os.path.abspath(__file__)))
import common as C  # noqa: E402


def main():
    ap = argparse.ArgumentParser()
    ap.add_argument("pid")
    ap.add_argument("--tier", default=os.environ.get("VERIF_TIER", "quick"))
    ap.add_argument("--replay", default=None)
    a = ap.parse_args()
    pid, tier = a.pid, a.tier if a.tier in ("quick", "thorough") else "quick"
    seed = int(os.environ.get("VERIF_SEED", "0") or 0)
    t0 = time.time()
    mod = importlib.import_module("props." + pid.lower())

    if a.replay:
        payload = json.load(open(a.replay))
        rc = mod.replay(payload)
        sys.exit(rc)

    # 1. build: regenerate Gen/ from /repo, compile the development, build the extracted driver
    binfo = C.build()
    proof = C.proof_status(pid)
    hyg = C.hygiene()
    broken = []          # proof obligations / ties that no longer check
    if not binfo["gen_ok"] and (pid in binfo.get("gen_failed_for", []) or "*" in binfo.get("gen_failed_for", [])):
        broken.append("translator: a generator this property depends on failed on /repo's current source: " + binfo["log"][-400:])
    if not proof["ok"]:
        broken.append("theorems of Properties/%s.v no longer check: %s" % (pid, proof["log"][-600:]))
    chk = None
    if tier == "thorough" and proof["ok"]:
        chk = C.coqchk(pid)
        if not chk["ok"]:
            broken.append("coqchk rejects Properties/%s: %s %s" % (pid, chk["flags"], chk["tail"]))
    if hyg:
        broken.append("hygiene: forbidden keyword in development: " + "; ".join(hyg[:3]))
    need = getattr(mod, "DRIVERS", ["driver"])
    if any(d in binfo.get("ocaml_failed", []) for d in need):
        broken.append("extracted model does not build: " + binfo["log"][-400:])

    # 2. correspondence + property oracle on the implementation
    res = C.Result()
    err = None
    try:
        mod.run(res, tier, seed)
    except Exception:
        err = traceback.format_exc()
        broken.append("harness error: " + err[-1500:])

    # 3. verdict
    out_lines = []
    new_viol = []
    known_hits = {}
    for v in res.violations:
        k = C.match_known(pid, v)
        if k is not None:
            known_hits.setdefault(k["what"], 0)
            known_hits[k["what"]] += 1
        else:
            new_viol.append(v)
    for what, n in known_hits.items():
        out_lines.append(f"KNOWN-FINDING: property={pid} {what} ({n} cases)")
    rc = 0
    if new_viol:
        v = new_viol[0]
        path = C.write_replay(pid, {"property": pid, "kind": "failing-input", "violation": v,
                                    "others": new_viol[1:10], "n_violations": len(new_viol),
                                    "replay_cmd": f"./check {pid} --replay <this file>"})
        out_lines.append(f"VIOLATION property={pid} replay={path}")
        rc = 1
    elif broken or res.disagreements:
        # a proof obligation or the correspondence is broken; look harder for a failing input
        found = None
        if hasattr(mod, "search"):
            try:
                found = mod.search(res, seed)
            except Exception:
                broken.append("search error: " + traceback.format_exc()[-800:])
        if found is not None and C.match_known(pid, found) is None:
            path = C.write_replay(pid, {"property": pid, "kind": "failing-input", "violation": found,
                                        "broken": broken, "disagreements": res.disagreements[:5]})
            out_lines.append(f"VIOLATION property={pid} replay={path}")
        else:
            path = C.write_replay(pid, {"property": pid, "kind": "no-failing-input-found", "broken": broken,
                                        "disagreements": res.disagreements[:10],
                                        "n_disagreements": len(res.disagreements)})
            out_lines.append(f"VIOLATION property={pid} replay={path} no-failing-input-found")
        rc = 1

    # 4. evidence
    level = getattr(mod, "LEVEL", "proof")
    cov = {
        "obligations": proof["obligations"], "discharged": proof["discharged"],
        "checker_cmd": f"make -C coq (full .vo build) ; coqc -Q . Verif Properties/{pid}.v",
        "trusted_base": C.KERNEL_TB + getattr(mod, "TRUSTED", []) +
                        ["Print Assumptions: %d theorem(s) closed under the global context; axioms: %s"
                         % (proof["assumptions"].get("closed_theorems", 0), proof["assumptions"].get("axioms", []) or "none")],
        "theorems": proof["theorems"],
        "evaluations": res.evaluations, "distinct_nontrivial": len(res.keys),
        "rule": res.rule, "samples": res.samples or ["<none>"],
        "exhaustive": res.exhaustive,
        "traces_validated_against_impl": res.traces or res.evaluations,
        "disagreements_model_vs_impl": len(res.disagreements),
        "float_ambiguous": res.float_ambiguous,
        "distribution": res.dist, "known_findings_hit": known_hits,
        "broken_obligations": broken, "build": {k: binfo[k] for k in ("gen_ok", "make_ok", "ocaml_ok", "build_s")},
    }
    if os.path.exists(os.path.join(C.COQ, "Properties", pid + "b.v")):
        cov["checker_cmd"] += f" ; coqc -Q . Verif Properties/{pid}b.v"
        cov["trusted_base"].append("tie by proof (Properties/%sb.v): the translator tools/py2jit.py + tools/gen.py (Python ast -> Jit/Lang.v terms, fail-closed, "
                                   "regenerated from /repo on every run), the interpreter Jit/Interp.v as the meaning of the translated text (floats = exact rationals), "
                                   "partial correctness only (OutOfFuel allowed) unless the theorem name says total" % pid)
    if os.path.exists(os.path.join(C.COQ, "Properties", pid + "c.v")):
        cov["checker_cmd"] += f" ; coqc -Q . Verif Properties/{pid}c.v"
        cov["trusted_base"].append("tie of the Python glue by proof (Properties/%sc.v): the translator tools/py2glue.py + tools/gen_glue.py (Python ast -> Glue/Lang.v terms, "
                                   "fail-closed whitelist of routines, regenerated from /repo on every run; skipped statements, assumed tests and declared identities listed in "
                                   "coq/Gen/glue.json: numpy backend, time_units='s' on rounded input, float literals = times in ticks), the evaluator Glue/Interp.v as the meaning of the "
                                   "NumPy primitives (floats = exact rationals, np.sort/searchsorted idealised), both exercised against the real routines by harness/gluecmp.py" % pid)
    if chk is not None:
        cov["coqchk"] = {"ok": chk["ok"], "axioms": chk["axioms"]}
        cov["trusted_base"].append("coqchk -o (independent checker) accepted the property file and its dependencies; axioms it lists: %s" % (chk["axioms"] or "none"))
    cov.update(res.extra)
    C.write_evidence(pid, tier, seed, level, cov, getattr(mod, "ASSUMPTIONS", []), time.time() - t0,
                     len(new_viol) + (1 if rc and not new_viol else 0))
    for l in out_lines:
        print(l)
    print(f"[{pid}] tier={tier} evaluations={res.evaluations} distinct={len(res.keys)} theorems={proof['discharged']}/{proof['obligations']} "
          f"disagreements={len(res.disagreements)} violations={len(new_viol)} known={sum(known_hits.values())} wall={time.time()-t0:.1f}s rc={rc}")
    sys.exit(rc)


if __name__ == "__main__":
    main()
