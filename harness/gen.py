"""Generators shared by the correspondence checks (DESIGN.md 3.4). All times are integer ticks (ns)."""
import itertools
import random

import numpy as np

US = 1000


def arr(ticks):
    """ticks -> the canonical float64 seconds (n/1e9 is correctly rounded, = np.around(x, 9))."""
    return np.asarray(ticks, dtype=np.float64) / 1e9 if len(ticks) else np.array([], dtype=np.float64)


def canonical_isets(points, max_intervals):
    """all canonical interval sets whose endpoints are distinct points of the sorted list `points`"""
    out = [[]]
    n = len(points)
    for m in range(1, max_intervals + 1):
        if 2 * m > n:
            break
        for comb in itertools.combinations(range(n), 2 * m):
            out.append([(points[comb[2 * i]], points[comb[2 * i + 1]]) for i in range(m)])
    return out


def sorted_multisets(points, max_n):
    out = []
    for n in range(0, max_n + 1):
        out.extend(list(c) for c in itertools.combinations_with_replacement(points, n))
    return out


def lattice(N, step=US, origin=0):
    return [origin + i * step for i in range(N)]


def rand_canonical_iset(rng, max_m, lo=0, hi=10**9, coincide=None, gaps=(1, 999, 1000, 1001, 10**6, 10**7)):
    """random canonical set; endpoints drawn with small structured gaps so that coincidences with
    `coincide` (a list of ticks) are frequent"""
    m = rng.randint(0, max_m)
    pts = []
    x = lo + rng.choice(gaps)
    for _ in range(2 * m):
        if coincide and rng.random() < 0.4:
            c = [v for v in coincide if v > (pts[-1] if pts else lo)]
            if c:
                x = rng.choice(c[:4])
                pts.append(x)
                continue
        x = (pts[-1] if pts else lo) + rng.choice(gaps)
        pts.append(x)
    return [(pts[2 * i], pts[2 * i + 1]) for i in range(m)]


def rand_sorted_ts(rng, max_n, ep=None, lo=0, span=10**8, dup=0.2):
    n = rng.randint(0, max_n)
    anchors = []
    if ep:
        for s, e in ep:
            anchors += [s, e, s - 1, e + 1, s + 1, e - 1, (s + e) // 2]
    ts = []
    for _ in range(n):
        r = rng.random()
        if anchors and r < 0.5:
            ts.append(rng.choice(anchors))
        elif ts and r < 0.5 + dup:
            ts.append(rng.choice(ts))
        else:
            ts.append(lo + rng.randrange(span))
    return sorted(ts)


def mem(x, A):
    return any(s <= x <= e for s, e in A)


def canonical(A):
    return all(s < e for s, e in A) and all(A[i][1] < A[i + 1][0] for i in range(len(A) - 1))
